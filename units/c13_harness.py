"""C13 harness (CrossHair targets): equality / hash / repr consistency of terminals and of expression DAGs.

Symbolic payloads (counts, numbers, parts, dims, mesh ids, DAG shapes) are branched to concrete values
(`conc`), so each solver-feasible path runs the real constructors, __eq__, __hash__ and __repr__ concretely."""

import units._xh_setup  # noqa: F401
from ufl import (Argument, Coefficient, Constant, FunctionSpace, Identity, Mesh, PermutationSymbol, SpatialCoordinate,
                 interval, triangle)
from ufl.classes import (FacetNormal, FixedIndex, Index, IntValue, Jacobian, Label, MultiIndex, Variable, Zero)

from units.c19_types import GenBinary, GenUnary
from vlib.elements import DG, P

BIG = 2**61 - 1   # CPython hashes ints modulo this prime: Index(c) and Index(c + BIG) collide


def conc(x, lo, hi):
    for i in range(lo, hi + 1):
        if x == i:
            return i
    return hi


def conc_set(x, values):
    for v in values:
        if x == v:
            return v
    return values[-1]


_X1 = P(triangle, 1, (2,))
_ELS = [P(triangle, 1), P(triangle, 2), DG(triangle, 1), P(triangle, 1, (2,))]
# meshes and spaces are built once, outside CrossHair's tracer (only the objects under test are built per path)
_MESH = {i: Mesh(_X1, ufl_id=i) for i in range(12)}
_SPACE = {(i, e): FunctionSpace(_MESH[i], _ELS[e]) for i in range(12) for e in range(4)}


def mesh_(i):
    return _MESH[i]


def space_(m, e):
    return _SPACE[(m, e)]


SHAPES = [(), (1,), (2,), (2, 2), (1, 2)]
CNT = [0, 9, 10]          # counts straddling the one/two digit boundary
MID = [9, 10]             # mesh ids

MAKERS = {
    # name -> (number of int parameters, ranges, constructor)
    "Constant": (3, [(0, 1), (0, 4), (0, 2)], lambda m, s, c: Constant(mesh_(MID[m]), SHAPES[s], count=CNT[c])),
    "Coefficient": (3, [(0, 1), (0, 3), (0, 2)], lambda m, e, c: Coefficient(space_(MID[m], e), count=CNT[c])),
    "Argument": (4, [(0, 1), (0, 0), (0, 1), (0, 2)],
                 lambda m, e, n, p: Argument(space_(MID[m], e), n, None if p == 2 else p)),
    "Index": (1, [(0, 11)], lambda c: Index(count=c)),
    "FixedIndex": (1, [(0, 11)], lambda c: FixedIndex(c)),
    "Label": (1, [(0, 11)], lambda c: Label(count=c)),
    "MultiIndex": (4, [(0, 1), (0, 2), (0, 1), (0, 2)], lambda k1, c1, k2, c2: MultiIndex(
        ((Index(count=CNT[c1]) if k1 else FixedIndex(CNT[c1])), (Index(count=CNT[c2]) if k2 else FixedIndex(CNT[c2]))))),
    "Zero": (3, [(0, 4), (0, 2), (1, 3)], lambda s, i, d: Zero(SHAPES[s], (CNT[i],), (d,)) if i else Zero(SHAPES[s])),
    "Identity": (1, [(1, 4)], lambda d: Identity(d)),
    "PermutationSymbol": (1, [(2, 4)], lambda d: PermutationSymbol(d)),
    "IntValueLit": (1, [(0, 5)], lambda c: IntValue([-1, 0, 1, 2, 10, 11][c])),
    "Mesh": (2, [(0, 11), (0, 1)], lambda i, e: Mesh([P(triangle, 1, (2,)), P(triangle, 2, (2,))][e], ufl_id=i)),
    "Geometric": (2, [(0, 2), (0, 2)], lambda k, i: [SpatialCoordinate, FacetNormal, Jacobian][k](mesh_(CNT[i]))),
    "Variable": (3, [(0, 1), (0, 1), (0, 2)],
                 lambda e, m, c: Variable(Coefficient(space_(MID[m], 0), count=CNT[e]), Label(count=CNT[c]))),
}


def consistency(kind, pa, pb):
    """0 if a == b is symmetric and implies equal hash and repr, and unequal payloads are unequal."""
    n, ranges, mk = MAKERS[kind]
    pa = [conc(x, lo, hi) for x, (lo, hi) in zip(pa, ranges)]
    pb = [conc(x, lo, hi) for x, (lo, hi) in zip(pb, ranges)]
    a, b = mk(*pa), mk(*pb)
    ra, rb, ha, hb = repr(a), repr(b), hash(a), hash(b)
    eq_ab, eq_ba = bool(a == b), bool(b == a)
    if eq_ab != eq_ba:
        return 1
    if eq_ab and ha != hb:
        return 2
    if eq_ab and ra != rb:
        return 3
    if not bool(a == a):
        return 4
    if (pa == pb) and not eq_ab:
        return 5
    if repr(a) != ra or hash(a) != ha or repr(b) != rb or hash(b) != hb:
        return 6          # comparing changed repr/hash
    if eq_ab and kind not in ("Label", "MultiIndex", "Index", "FixedIndex", "Mesh"):
        if a.ufl_shape != b.ufl_shape or a.ufl_free_indices != b.ufl_free_indices:
            return 7
    return 0


def transitive(kind, pa, pb, pc):
    n, ranges, mk = MAKERS[kind]
    ps = []
    for p in (pa, pb, pc):
        ps.append([conc(x, lo, hi) for x, (lo, hi) in zip(p, ranges)])
    a, b, c = (mk(*p) for p in ps)
    if bool(a == b) and bool(b == c) and not bool(a == c):
        return 1
    return 0


# ---- expression DAG pairs --------------------------------------------------------------------------------

_LEAVES = None


def leaves():
    global _LEAVES
    if _LEAVES is None:
        V = space_(0, 0)
        _LEAVES = [Coefficient(V, count=7101), Coefficient(V, count=7102)]
    return _LEAVES


def skey(e):
    if e._ufl_is_terminal_:
        return ("t", repr(e))
    return (type(e).__name__,) + tuple(skey(o) for o in e.ufl_operands)


def dag(k0, a0, k1, a1):
    nodes = list(leaves())
    a0 = conc(a0, 0, 1)
    nodes.append(GenUnary(nodes[a0]) if conc(k0, 0, 1) == 0 else GenBinary(nodes[a0], nodes[1]))
    a1 = conc(a1, 0, 2)
    nodes.append(GenUnary(nodes[a1]) if conc(k1, 0, 1) == 0 else GenBinary(nodes[a1], nodes[0]))
    return nodes[-1]


def dag_pair(ka0, aa0, ka1, aa1, kb0, ab0, kb1, ab1):
    a = dag(ka0, aa0, ka1, aa1)
    b = dag(kb0, ab0, kb1, ab1)
    ka, kb = skey(a), skey(b)
    ra, rb, ha, hb = repr(a), repr(b), hash(a), hash(b)
    e1 = bool(a == b)
    e2 = bool(b == a)
    e3 = bool(a == b)
    if e1 != (ka == kb):
        return 1
    if e1 != e2 or e1 != e3:
        return 2
    if repr(a) != ra or repr(b) != rb or hash(a) != ha or hash(b) != hb:
        return 3
    if skey(a) != ka or skey(b) != kb:
        return 4
    if e1 and ha != hb:
        return 5
    return 0


def collision_pair(c: int, d: int, w: int):
    """Indexed expressions that differ only in an index whose hash collides: comparison must say 'different',
    be stable when repeated in both orders, and leave both expressions untouched."""
    c = conc_set(c, [7, 7 + BIG, 8])
    d = conc_set(d, [7, 7 + BIG, 8])
    w = conc(w, 0, 1)
    V = space_(0, 3)
    f = Coefficient(V, count=7103)
    from ufl.classes import Indexed

    def mk(cnt):
        ix = Indexed(f, MultiIndex((Index(count=cnt),)))
        return GenBinary(GenUnary(ix), ix) if w else GenUnary(ix)

    a, b = mk(c), mk(d)
    ra, rb, ha, hb, ka, kb = repr(a), repr(b), hash(a), hash(b), skey(a), skey(b)
    r1 = bool(a == b)
    r2 = bool(b == a)
    r3 = bool(a == b)
    if r1 != (c == d) or r2 != r1 or r3 != r1:
        return 1
    if repr(a) != ra or repr(b) != rb or hash(a) != ha or hash(b) != hb or skey(a) != ka or skey(b) != kb:
        return 2
    if not bool(a == mk(c)):
        return 3
    return 0


# ---- generated conditions ----


def eq_Constant(a0: int, a1: int, a2: int, b0: int, b1: int, b2: int) -> int:
    """
    pre: 0 <= a0 <= 1 and 0 <= a1 <= 4 and 0 <= a2 <= 2 and 0 <= b0 <= 1 and 0 <= b1 <= 4 and 0 <= b2 <= 2
    post: _ == 0
    """
    return consistency("Constant", [a0, a1, a2], [b0, b1, b2])


def tr_Constant(a0: int, a1: int, a2: int, b0: int, b1: int, b2: int, c0: int, c1: int, c2: int) -> int:
    """
    pre: 0 <= a0 <= 1 and 0 <= a1 <= 1 and 0 <= a2 <= 1 and 0 <= b0 <= 1 and 0 <= b1 <= 1 and 0 <= b2 <= 1 and 0 <= c0 <= 1 and 0 <= c1 <= 1 and 0 <= c2 <= 1
    post: _ == 0
    """
    return transitive("Constant", [a0, a1, a2], [b0, b1, b2], [c0, c1, c2])


def eq_Coefficient(a0: int, a1: int, a2: int, b0: int, b1: int, b2: int) -> int:
    """
    pre: 0 <= a0 <= 1 and 0 <= a1 <= 3 and 0 <= a2 <= 2 and 0 <= b0 <= 1 and 0 <= b1 <= 3 and 0 <= b2 <= 2
    post: _ == 0
    """
    return consistency("Coefficient", [a0, a1, a2], [b0, b1, b2])


def tr_Coefficient(a0: int, a1: int, a2: int, b0: int, b1: int, b2: int, c0: int, c1: int, c2: int) -> int:
    """
    pre: 0 <= a0 <= 1 and 0 <= a1 <= 1 and 0 <= a2 <= 1 and 0 <= b0 <= 1 and 0 <= b1 <= 1 and 0 <= b2 <= 1 and 0 <= c0 <= 1 and 0 <= c1 <= 1 and 0 <= c2 <= 1
    post: _ == 0
    """
    return transitive("Coefficient", [a0, a1, a2], [b0, b1, b2], [c0, c1, c2])


def eq_Argument(a0: int, a1: int, a2: int, a3: int, b0: int, b1: int, b2: int, b3: int) -> int:
    """
    pre: 0 <= a0 <= 1 and 0 <= a1 <= 0 and 0 <= a2 <= 1 and 0 <= a3 <= 2 and 0 <= b0 <= 1 and 0 <= b1 <= 0 and 0 <= b2 <= 1 and 0 <= b3 <= 2
    post: _ == 0
    """
    return consistency("Argument", [a0, a1, a2, a3], [b0, b1, b2, b3])


def tr_Argument(a0: int, a1: int, a2: int, a3: int, b0: int, b1: int, b2: int, b3: int, c0: int, c1: int, c2: int, c3: int) -> int:
    """
    pre: 0 <= a0 <= 0 and 0 <= a1 <= 0 and 0 <= a2 <= 1 and 0 <= a3 <= 1 and 0 <= b0 <= 0 and 0 <= b1 <= 0 and 0 <= b2 <= 1 and 0 <= b3 <= 1 and 0 <= c0 <= 0 and 0 <= c1 <= 0 and 0 <= c2 <= 1 and 0 <= c3 <= 1
    post: _ == 0
    """
    return transitive("Argument", [a0, a1, a2, a3], [b0, b1, b2, b3], [c0, c1, c2, c3])


def eq_Index(a0: int, b0: int) -> int:
    """
    pre: 0 <= a0 <= 11 and 0 <= b0 <= 11
    post: _ == 0
    """
    return consistency("Index", [a0], [b0])


def tr_Index(a0: int, b0: int, c0: int) -> int:
    """
    pre: 0 <= a0 <= 1 and 0 <= b0 <= 1 and 0 <= c0 <= 1
    post: _ == 0
    """
    return transitive("Index", [a0], [b0], [c0])


def eq_FixedIndex(a0: int, b0: int) -> int:
    """
    pre: 0 <= a0 <= 11 and 0 <= b0 <= 11
    post: _ == 0
    """
    return consistency("FixedIndex", [a0], [b0])


def tr_FixedIndex(a0: int, b0: int, c0: int) -> int:
    """
    pre: 0 <= a0 <= 1 and 0 <= b0 <= 1 and 0 <= c0 <= 1
    post: _ == 0
    """
    return transitive("FixedIndex", [a0], [b0], [c0])


def eq_Label(a0: int, b0: int) -> int:
    """
    pre: 0 <= a0 <= 11 and 0 <= b0 <= 11
    post: _ == 0
    """
    return consistency("Label", [a0], [b0])


def tr_Label(a0: int, b0: int, c0: int) -> int:
    """
    pre: 0 <= a0 <= 1 and 0 <= b0 <= 1 and 0 <= c0 <= 1
    post: _ == 0
    """
    return transitive("Label", [a0], [b0], [c0])


def eq_MultiIndex(a0: int, a1: int, a2: int, a3: int, b0: int, b1: int, b2: int, b3: int) -> int:
    """
    pre: 0 <= a0 <= 1 and 0 <= a1 <= 2 and 0 <= a2 <= 1 and 0 <= a3 <= 2 and 0 <= b0 <= 1 and 0 <= b1 <= 2 and 0 <= b2 <= 1 and 0 <= b3 <= 2
    post: _ == 0
    """
    return consistency("MultiIndex", [a0, a1, a2, a3], [b0, b1, b2, b3])


def tr_MultiIndex(a0: int, a1: int, a2: int, a3: int, b0: int, b1: int, b2: int, b3: int, c0: int, c1: int, c2: int, c3: int) -> int:
    """
    pre: 0 <= a0 <= 0 and 0 <= a1 <= 0 and 0 <= a2 <= 1 and 0 <= a3 <= 1 and 0 <= b0 <= 0 and 0 <= b1 <= 0 and 0 <= b2 <= 1 and 0 <= b3 <= 1 and 0 <= c0 <= 0 and 0 <= c1 <= 0 and 0 <= c2 <= 1 and 0 <= c3 <= 1
    post: _ == 0
    """
    return transitive("MultiIndex", [a0, a1, a2, a3], [b0, b1, b2, b3], [c0, c1, c2, c3])


def eq_Zero(a0: int, a1: int, a2: int, b0: int, b1: int, b2: int) -> int:
    """
    pre: 0 <= a0 <= 4 and 0 <= a1 <= 2 and 1 <= a2 <= 3 and 0 <= b0 <= 4 and 0 <= b1 <= 2 and 1 <= b2 <= 3
    post: _ == 0
    """
    return consistency("Zero", [a0, a1, a2], [b0, b1, b2])


def tr_Zero(a0: int, a1: int, a2: int, b0: int, b1: int, b2: int, c0: int, c1: int, c2: int) -> int:
    """
    pre: 0 <= a0 <= 1 and 0 <= a1 <= 1 and 1 <= a2 <= 2 and 0 <= b0 <= 1 and 0 <= b1 <= 1 and 1 <= b2 <= 2 and 0 <= c0 <= 1 and 0 <= c1 <= 1 and 1 <= c2 <= 2
    post: _ == 0
    """
    return transitive("Zero", [a0, a1, a2], [b0, b1, b2], [c0, c1, c2])


def eq_Identity(a0: int, b0: int) -> int:
    """
    pre: 1 <= a0 <= 4 and 1 <= b0 <= 4
    post: _ == 0
    """
    return consistency("Identity", [a0], [b0])


def tr_Identity(a0: int, b0: int, c0: int) -> int:
    """
    pre: 1 <= a0 <= 2 and 1 <= b0 <= 2 and 1 <= c0 <= 2
    post: _ == 0
    """
    return transitive("Identity", [a0], [b0], [c0])


def eq_PermutationSymbol(a0: int, b0: int) -> int:
    """
    pre: 2 <= a0 <= 4 and 2 <= b0 <= 4
    post: _ == 0
    """
    return consistency("PermutationSymbol", [a0], [b0])


def tr_PermutationSymbol(a0: int, b0: int, c0: int) -> int:
    """
    pre: 2 <= a0 <= 3 and 2 <= b0 <= 3 and 2 <= c0 <= 3
    post: _ == 0
    """
    return transitive("PermutationSymbol", [a0], [b0], [c0])


def eq_IntValueLit(a0: int, b0: int) -> int:
    """
    pre: 0 <= a0 <= 5 and 0 <= b0 <= 5
    post: _ == 0
    """
    return consistency("IntValueLit", [a0], [b0])


def tr_IntValueLit(a0: int, b0: int, c0: int) -> int:
    """
    pre: 0 <= a0 <= 1 and 0 <= b0 <= 1 and 0 <= c0 <= 1
    post: _ == 0
    """
    return transitive("IntValueLit", [a0], [b0], [c0])


def eq_Mesh(a0: int, a1: int, b0: int, b1: int) -> int:
    """
    pre: 0 <= a0 <= 11 and 0 <= a1 <= 1 and 0 <= b0 <= 11 and 0 <= b1 <= 1
    post: _ == 0
    """
    return consistency("Mesh", [a0, a1], [b0, b1])


def tr_Mesh(a0: int, a1: int, b0: int, b1: int, c0: int, c1: int) -> int:
    """
    pre: 0 <= a0 <= 1 and 0 <= a1 <= 1 and 0 <= b0 <= 1 and 0 <= b1 <= 1 and 0 <= c0 <= 1 and 0 <= c1 <= 1
    post: _ == 0
    """
    return transitive("Mesh", [a0, a1], [b0, b1], [c0, c1])


def eq_Geometric(a0: int, a1: int, b0: int, b1: int) -> int:
    """
    pre: 0 <= a0 <= 2 and 0 <= a1 <= 2 and 0 <= b0 <= 2 and 0 <= b1 <= 2
    post: _ == 0
    """
    return consistency("Geometric", [a0, a1], [b0, b1])


def tr_Geometric(a0: int, a1: int, b0: int, b1: int, c0: int, c1: int) -> int:
    """
    pre: 0 <= a0 <= 1 and 0 <= a1 <= 1 and 0 <= b0 <= 1 and 0 <= b1 <= 1 and 0 <= c0 <= 1 and 0 <= c1 <= 1
    post: _ == 0
    """
    return transitive("Geometric", [a0, a1], [b0, b1], [c0, c1])


def eq_Variable(a0: int, a1: int, a2: int, b0: int, b1: int, b2: int) -> int:
    """
    pre: 0 <= a0 <= 1 and 0 <= a1 <= 1 and 0 <= a2 <= 2 and 0 <= b0 <= 1 and 0 <= b1 <= 1 and 0 <= b2 <= 2
    post: _ == 0
    """
    return consistency("Variable", [a0, a1, a2], [b0, b1, b2])


def tr_Variable(a0: int, a1: int, a2: int, b0: int, b1: int, b2: int, c0: int, c1: int, c2: int) -> int:
    """
    pre: 0 <= a0 <= 1 and 0 <= a1 <= 1 and 0 <= a2 <= 1 and 0 <= b0 <= 1 and 0 <= b1 <= 1 and 0 <= b2 <= 1 and 0 <= c0 <= 1 and 0 <= c1 <= 1 and 0 <= c2 <= 1
    post: _ == 0
    """
    return transitive("Variable", [a0, a1, a2], [b0, b1, b2], [c0, c1, c2])


def eq_dag_pair(ka0: int, aa0: int, ka1: int, aa1: int, kb0: int, ab0: int, kb1: int, ab1: int) -> int:
    """
    pre: 0 <= ka0 <= 1 and 0 <= aa0 <= 1 and 0 <= ka1 <= 1 and 0 <= aa1 <= 2
    pre: 0 <= kb0 <= 1 and 0 <= ab0 <= 1 and 0 <= kb1 <= 1 and 0 <= ab1 <= 2
    post: _ == 0
    """
    return dag_pair(ka0, aa0, ka1, aa1, kb0, ab0, kb1, ab1)


def eq_collision(c: int, d: int, w: int) -> int:
    """
    pre: c in (7, 2305843009213693958, 8) and d in (7, 2305843009213693958, 8) and 0 <= w <= 1
    post: _ == 0
    """
    return collision_pair(c, d, w)


def eq_twin(a0: int, b0: int) -> int:
    """
    pre: 0 <= a0 <= 11 and 0 <= b0 <= 11
    post: _ == 1
    """
    return consistency("Index", [a0], [b0])


# warm up
consistency("Constant", [0, 1, 2], [0, 1, 2])
dag_pair(1, 0, 1, 2, 1, 0, 1, 2)
collision_pair(7, 8, 1)
