"""C05 harness (CrossHair targets): the free-index bookkeeping helpers behind every operator constructor
(ufl.index_combination_utils) against set-level specifications written with comparisons only (no hashing, so the
index ids stay symbolic).  Each function returns 0 when the specification holds, a positive code otherwise."""

import units._xh_setup  # noqa: F401
from ufl.index_combination_utils import (merge_overlapping_indices, merge_unique_indices, remove_indices,
                                         unique_sorted_indices)


def conc(x, lo, hi):
    for i in range(lo, hi + 1):
        if x == i:
            return i
    return hi


def strictly_increasing(t):
    return all(t[k] < t[k + 1] for k in range(len(t) - 1))


def member(x, t):
    return any(x == y for y in t)


def dim_of(x, ids, dims):
    """dimension recorded for id x in (ids, dims), or None"""
    for y, d in zip(ids, dims):
        if x == y:
            return d
    return None


def consistent(a, ad, b, bd):
    return all(da == db for x, da in zip(a, ad) for y, db in zip(b, bd) if x == y)


def _cut(n, ids, dims):
    n = conc(n, 0, len(ids))
    return tuple(ids[:n]), tuple(dims[:n])


def spec_merge_unique(a, ad, b, bd):
    fi, fid = merge_unique_indices(a, ad, b, bd)
    if len(fi) != len(fid):
        return 1
    if not strictly_increasing(fi):
        return 2
    if not all(member(x, fi) for x in a) or not all(member(x, fi) for x in b):
        return 3
    if not all(member(x, a) or member(x, b) for x in fi):
        return 4
    for x, d in zip(fi, fid):
        da, db = dim_of(x, a, ad), dim_of(x, b, bd)
        if (da is not None and d != da) or (db is not None and d != db):
            return 5
    return 0


def spec_merge_overlapping(a, ad, b, bd):
    fi, fid, ri, rid = merge_overlapping_indices(a, ad, b, bd)
    if len(fi) != len(fid) or len(ri) != len(rid):
        return 1
    if not strictly_increasing(fi):
        return 2
    # free = symmetric difference, repeated = intersection (in the order of a)
    for x in a:
        if member(x, b) != member(x, ri) or member(x, b) == member(x, fi):
            return 3
    for x in b:
        if member(x, a) != member(x, ri) or member(x, a) == member(x, fi):
            return 4
    if not all(member(x, a) or member(x, b) for x in fi) or not all(member(x, a) and member(x, b) for x in ri):
        return 5
    if tuple(x for x in a if member(x, b)) != tuple(ri):
        return 6
    for x, d in zip(fi, fid):
        da, db = dim_of(x, a, ad), dim_of(x, b, bd)
        if d != (da if da is not None else db):
            return 7
    for x, d in zip(ri, rid):
        if d != dim_of(x, a, ad):
            return 8
    return 0


def spec_remove(fi, fid, rfi):
    out = remove_indices(fi, fid, rfi)
    if not rfi:
        return 0 if tuple(out[0]) == tuple(fi) and tuple(out[1]) == tuple(fid) else 1
    nfi, nfid, shape = out
    if len(nfi) != len(nfid) or len(shape) != len(rfi):
        return 2
    if tuple(nfi) != tuple(x for x in fi if not member(x, rfi)):
        return 3
    for x, d in zip(nfi, nfid):
        if d != dim_of(x, fi, fid):
            return 4
    for r, s in zip(rfi, shape):
        if s != dim_of(r, fi, fid):
            return 5
    return 0


def spec_unique_sorted(ids, dims):
    pairs = tuple(zip(ids, dims))
    out = unique_sorted_indices(pairs)
    got_ids = tuple(i for i, _ in out)
    if not strictly_increasing(got_ids):
        return 1
    if not all(member(x, got_ids) for x in ids) or not all(member(x, ids) for x in got_ids):
        return 2
    for x, d in out:
        if d != dim_of(x, ids, dims):
            return 3
    return 0


# ---- conditions (literal source: CrossHair loads them by name) ----


def merge_unique(na: int, a0: int, a1: int, a2: int, da0: int, da1: int, da2: int,
                 nb: int, b0: int, b1: int, b2: int, db0: int, db1: int, db2: int) -> int:
    """
    pre: 0 <= na <= 3 and 0 <= nb <= 3
    pre: 0 <= a0 < a1 < a2 <= 40 and 0 <= b0 < b1 < b2 <= 40
    pre: all(1 <= d <= 4 for d in (da0, da1, da2, db0, db1, db2))
    pre: consistent((a0, a1, a2), (da0, da1, da2), (b0, b1, b2), (db0, db1, db2))
    post: _ == 0
    """
    a, ad = _cut(na, (a0, a1, a2), (da0, da1, da2))
    b, bd = _cut(nb, (b0, b1, b2), (db0, db1, db2))
    return spec_merge_unique(a, ad, b, bd)


def merge_overlapping(na: int, a0: int, a1: int, a2: int, da0: int, da1: int, da2: int,
                      nb: int, b0: int, b1: int, b2: int, db0: int, db1: int, db2: int) -> int:
    """
    pre: 0 <= na <= 3 and 0 <= nb <= 3
    pre: 0 <= a0 < a1 < a2 <= 40 and 0 <= b0 < b1 < b2 <= 40
    pre: all(1 <= d <= 4 for d in (da0, da1, da2, db0, db1, db2))
    pre: consistent((a0, a1, a2), (da0, da1, da2), (b0, b1, b2), (db0, db1, db2))
    post: _ == 0
    """
    a, ad = _cut(na, (a0, a1, a2), (da0, da1, da2))
    b, bd = _cut(nb, (b0, b1, b2), (db0, db1, db2))
    return spec_merge_overlapping(a, ad, b, bd)


def remove(n: int, f0: int, f1: int, f2: int, f3: int, d0: int, d1: int, d2: int, d3: int,
           nr: int, r0: int, r1: int, r2: int) -> int:
    """
    pre: 1 <= n <= 4 and 0 <= nr <= 3 and nr <= n
    pre: 0 <= f0 < f1 < f2 < f3 <= 40
    pre: all(1 <= d <= 4 for d in (d0, d1, d2, d3))
    pre: r0 != r1 and r0 != r2 and r1 != r2
    pre: all(member(r, (f0, f1, f2, f3)[:n]) for r in (r0, r1, r2)[:nr])
    post: _ == 0
    """
    n = conc(n, 1, 4)
    nr = conc(nr, 0, 3)
    fi, fid = (f0, f1, f2, f3)[:n], (d0, d1, d2, d3)[:n]
    return spec_remove(fi, fid, (r0, r1, r2)[:nr])


def unique_sorted(n: int, i0: int, i1: int, i2: int, i3: int, d0: int, d1: int, d2: int, d3: int) -> int:
    """
    pre: 0 <= n <= 4
    pre: 0 <= i0 <= i1 <= i2 <= i3 <= 40
    pre: all(1 <= d <= 4 for d in (d0, d1, d2, d3))
    pre: consistent((i0, i1, i2, i3), (d0, d1, d2, d3), (i0, i1, i2, i3), (d0, d1, d2, d3))
    post: _ == 0
    """
    n = conc(n, 0, 4)
    return spec_unique_sorted((i0, i1, i2, i3)[:n], (d0, d1, d2, d3)[:n])


def twin(na: int, a0: int, a1: int, b0: int) -> int:
    """
    pre: 0 <= a0 < a1 <= 40 and 0 <= b0 <= 40
    post: _ == 0
    """
    # vacuity twin: the specification with a deliberately wrong expectation (free indices never shrink) must be refuted
    fi, fid, ri, rid = merge_overlapping_indices((a0, a1), (2, 2), (b0,), (2,))
    return 0 if len(fi) == 3 else 1
