"""C18 harness (CrossHair targets): the real SumDegreeEstimator handlers on polynomial skeletons whose
element degrees are symbolic ints, against an exact max-plus degree calculus written here.

The traversal is driven by this harness in post-order (map_expr_dags interns results in a dict, which would
realise the symbolic degrees); dispatch to the handlers is the real MultiFunction.__call__.
"""

import units._xh_setup  # noqa: F401
from ufl import (Coefficient, Constant, FunctionSpace, Mesh, SpatialCoordinate, as_vector, dot, grad, inner, interval,
                 tetrahedron, triangle, quadrilateral, conditional, lt, gt, max_value, min_value, outer, cross, div, curl,
                 nabla_grad, nabla_div, conj, real, imag, variable, transpose, Jacobian)
from ufl.algorithms.apply_algebra_lowering import apply_algebra_lowering
from ufl.algorithms.estimate_degrees import SumDegreeEstimator
from ufl.classes import (Argument, ComponentTensor, Division, Grad, Indexed, IndexSum, IntValue, ListTensor, Power,
                         Product, Sum, Terminal, PositiveRestricted, NegativeRestricted, Conj, Real, Imag, Variable,
                         Transposed, Inner, Dot, Outer, Cross, Div, Curl, NablaGrad, NablaDiv, Conditional, Condition,
                         MinValue, MaxValue)
from ufl.classes import Jacobian as JacobianT
from ufl.domain import extract_unique_domain


def unique_post_traversal(expr):
    """Post-order over node objects (by identity), harness-side."""
    seen = set()
    out = []
    stack = [(expr, False)]
    while stack:
        v, done = stack.pop()
        if done:
            out.append(v)
            continue
        if id(v) in seen:
            continue
        seen.add(id(v))
        stack.append((v, True))
        for o in v.ufl_operands:
            if id(o) not in seen:
                stack.append((o, False))
    return out

from ufl.finiteelement import AbstractFiniteElement
from ufl.pullback import (IdentityPullback, MixedPullback, SymmetricPullback, contravariant_piola, covariant_piola,
                          identity_pullback)
from ufl.sobolevspace import H1, HDiv, L2


DEG = {}   # tag -> (superdegree, subdegree): set by each condition, read by the element properties


class E(AbstractFiniteElement):
    """Element whose degrees are looked up in DEG at access time (so skeleton expressions are built once,
    outside CrossHair's tracer, and only the degree flow is executed symbolically); identity
    (repr/hash/eq) is a concrete tag."""

    def __init__(self, tag, cell, superdegree, rshape=(), pullback=identity_pullback, sobolev=H1, subs=(), subdegree=None):
        self._tag = tag
        self._cell = cell
        if superdegree is not None:
            DEG[tag] = (superdegree, superdegree if subdegree is None else subdegree)
        self._rshape = tuple(rshape)
        self._pb = pullback
        self._sob = sobolev
        self._subs = list(subs)

    def __repr__(self):
        return self._tag

    def __str__(self):
        return self._tag

    def __hash__(self):
        return hash(self._tag)

    def __eq__(self, other):
        return isinstance(other, E) and self._tag == other._tag

    def is_cellwise_constant(self):
        # concrete on purpose: Grad/Div/...__new__ ask this when CrossHair copies a derivative node outside tracing
        # (set membership in ufl traversals); skeletons are built at placeholder degree 2, where the answer is False
        return False

    sobolev_space = property(lambda self: self._sob)
    pullback = property(lambda self: self._pb)
    @property
    def embedded_superdegree(self):
        if self._subs and self._tag not in DEG:
            d = self._subs[0].embedded_superdegree
            for e in self._subs[1:]:
                x = e.embedded_superdegree
                d = x if x > d else d
            return d
        return DEG[self._tag][0]

    @property
    def embedded_subdegree(self):
        if self._subs and self._tag not in DEG:
            d = self._subs[0].embedded_subdegree
            for e in self._subs[1:]:
                x = e.embedded_subdegree
                d = x if x < d else d
            return d
        return DEG[self._tag][1]
    cell = property(lambda self: self._cell)
    reference_value_shape = property(lambda self: self._rshape)
    sub_elements = property(lambda self: self._subs)


def mixed(tag, subs):
    cell = subs[0].cell
    m = E(tag, cell, None, (sum(e.reference_value_size for e in subs),), None, L2, subs)
    m._pb = IdentityPullback() if all(isinstance(e.pullback, IdentityPullback) for e in subs) else MixedPullback(m)
    return m


def symmetric(tag, symmetry, subs):
    m = E(tag, subs[0].cell, None, (sum(e.reference_value_size for e in subs),), None, L2, subs)
    m._pb = SymmetricPullback(m, symmetry)
    return m


SYM2 = {(0, 0): 0, (0, 1): 1, (1, 0): 1, (1, 1): 2}


def estimate(expr):
    """Post-order application of the real handlers."""
    de = SumDegreeEstimator(1, {})
    res = {}
    for v in unique_post_traversal(expr):
        if v._ufl_is_terminal_:
            r = de(v)
        else:
            r = de(v, *[res[id(o)] for o in v.ufl_operands])
        res[id(v)] = r
    return res[id(expr)]


# ---- oracle: exact degree for generic data (max-plus), written independently -------------------------


def _phys_size(e, gdim, tdim):
    pb = e.pullback
    rs = e.reference_value_shape
    if isinstance(pb, SymmetricPullback):
        keys = list(pb._symmetry)
        n = 1
        for a in range(len(keys[0])):
            n *= max(k[a] for k in keys) + 1
        return n * _phys_size(e.sub_elements[0], gdim, tdim)
    if isinstance(pb, MixedPullback) or (e.sub_elements and isinstance(pb, IdentityPullback)):
        return sum(_phys_size(s, gdim, tdim) for s in e.sub_elements)
    n = 1
    for s in rs:
        n *= s
    if pb is contravariant_piola or pb is covariant_piola:
        return (n // rs[-1]) * gdim
    return n


def component_degree(e, flat, gdim, tdim):
    """Degree of the flat physical component `flat` of element e (generic data)."""
    pb = e.pullback
    if isinstance(pb, SymmetricPullback):
        block = []
        keys = list(pb._symmetry)
        dims = [max(k[a] for k in keys) + 1 for a in range(len(keys[0]))]
        sub_n = _phys_size(e.sub_elements[0], gdim, tdim)
        b = flat // sub_n
        for dsz in reversed(dims):
            block.append(b % dsz)
            b //= dsz
        k = pb._symmetry[tuple(reversed(block))]
        return component_degree(e.sub_elements[k], flat % sub_n, gdim, tdim)
    if e.sub_elements:
        off = 0
        for s in e.sub_elements:
            n = _phys_size(s, gdim, tdim)
            if flat < off + n:
                return component_degree(s, flat - off, gdim, tdim)
            off += n
        raise IndexError(flat)
    return e.embedded_superdegree


def true_degree(expr, gdim, tdim):
    res = {}
    for v in unique_post_traversal(expr):
        ops = [res.get(id(o)) for o in v.ufl_operands]
        if isinstance(v, Coefficient):
            r = v.ufl_element().embedded_superdegree
        elif isinstance(v, SpatialCoordinate):
            r = extract_unique_domain(v).ufl_coordinate_element().embedded_superdegree
        elif isinstance(v, JacobianT):
            m = extract_unique_domain(v).ufl_coordinate_element().embedded_superdegree
            r = m - 1 if m > 0 else 0
        elif isinstance(v, Terminal):
            r = 0 if not isinstance(v, Argument) else v.ufl_element().embedded_superdegree
        elif isinstance(v, Indexed):
            A, ii = v.ufl_operands
            if isinstance(A, (Coefficient, Argument)) and A.ufl_element().sub_elements and all(
                    hasattr(i, "_value") for i in ii.indices()):
                flat = 0
                for i, s in zip(ii.indices(), A.ufl_shape):
                    flat = flat * s + int(i)
                r = component_degree(A.ufl_element(), flat, gdim, tdim)
            else:
                r = ops[0]
        elif isinstance(v, Sum):
            r = ops[0] if ops[0] > ops[1] else ops[1]
        elif isinstance(v, Product):
            r = ops[0] + ops[1]
        elif isinstance(v, Division):
            r = ops[0]          # divisor is a constant in the skeletons
        elif isinstance(v, Power):
            r = ops[0] * int(v.ufl_operands[1])
        elif isinstance(v, (Grad, Div, Curl, NablaGrad, NablaDiv)):
            # per-direction degree on tensor-product cells: a derivative does not lower it (documented)
            if extract_unique_domain(v).ufl_cell().cellname in ("quadrilateral", "hexahedron"):
                r = ops[0]
            else:
                r = ops[0] - 1 if ops[0] > 0 else 0
        elif isinstance(v, (PositiveRestricted, NegativeRestricted, Conj, Real, Imag, Variable, Transposed)):
            r = ops[0]
        elif isinstance(v, (Inner, Dot, Outer, Cross)):
            r = ops[0] + ops[1]
        elif isinstance(v, Condition):
            r = None
        elif isinstance(v, Conditional):
            r = ops[1] if ops[1] > ops[2] else ops[2]     # exact on cells where the condition is constant
        elif isinstance(v, (MinValue, MaxValue)):
            r = ops[0] if ops[0] > ops[1] else ops[1]
        elif isinstance(v, (IndexSum, ComponentTensor)):
            r = ops[0]
        elif isinstance(v, ListTensor):
            r = ops[0]
            for o in ops[1:]:
                r = o if o > r else r
        else:
            raise TypeError(type(v).__name__)
        res[id(v)] = r
    return res[id(expr)]


def gap(expr, gdim, tdim):
    """estimate - true degree (must be >= 0)."""
    return estimate(expr) - true_degree(expr, gdim, tdim)


def _dom(cell, gdim):
    return Mesh(E(f"X{cell.cellname}{gdim}", cell, 1, (gdim,)))


# ---- skeletons (built once; default degrees are placeholders) ---------------------------------------------


def _build():
    SK = {}
    dom = _dom(triangle, 2)
    f = Coefficient(FunctionSpace(dom, E("Ef", triangle, 2)), count=1)
    g = Coefficient(FunctionSpace(dom, E("Eg", triangle, 2)), count=2)
    x = SpatialCoordinate(dom)
    c = Constant(dom, count=3)
    for n in range(4):
        SK[f"scalar_poly_n{n}"] = (f ** IntValue(n) * g + f * grad(g)[0] * x[1] + (f + g * g) / c
                                   + grad(f * g)[1] * grad(g * g)[0] * x[0] ** 2, 2, 2)
    SK["twin"] = (f ** IntValue(2) * g, 2, 2)
    M = mixed("M1", [E("Ev", triangle, 2, (2,)), E("Ep", triangle, 2), E("Eq", triangle, 2)])
    w = Coefficient(FunctionSpace(dom, M), count=4)
    for k in range(4):
        # separate terms (a sum would let an over-estimated term mask an under-estimated one) and one sum
        SK[f"mixed_components_k{k}"] = [(w[k] * w[(k + 1) % 4], 2, 2), (w[3] * w[0] * w[0], 2, 2), (w[k] * w[k], 2, 2),
                                        (grad(w)[k, 0] * w[2], 2, 2),
                                        (w[k] * w[(k + 1) % 4] + w[3] * w[0] * w[0] + grad(w)[k, 0] * w[2], 2, 2)]
    S = symmetric("S1", SYM2, [E("Ea", triangle, 2), E("Eb", triangle, 2), E("Ec", triangle, 2)])
    s_ = Coefficient(FunctionSpace(dom, S), count=5)
    SK["symmetric_components"] = [(s_[a, b] * s_[b, a], 2, 2) for a in range(2) for b in range(2)] + \
        [(s_[1, 1] * s_[0, 0] * s_[a, 1], 2, 2) for a in range(2)] + [(s_[a, b], 2, 2) for a in range(2) for b in range(2)]
    S2 = symmetric("S2", SYM2, [E("Es", triangle, 2), E("Es", triangle, None), E("Es", triangle, None)])
    M2 = mixed("M2", [S2, E("Eu", triangle, 2, (2,))])
    w2 = Coefficient(FunctionSpace(dom, M2), count=6)
    SK["symmetric_in_mixed"] = [(w2[k] * w2[k], 2, 2) for k in range(6)] + [(w2[3] * w2[4], 2, 2), (w2[0] * w2[5], 2, 2),
                                                                        (w2[3] * w2[4] + w2[0] * w2[5], 2, 2)]
    S3 = symmetric("S3", SYM2, [E("Et", triangle, 2), E("Et", triangle, None), E("Et", triangle, None)])
    M3 = mixed("M3", [E("Eh", triangle, 2), S3])
    w3 = Coefficient(FunctionSpace(dom, M3), count=7)
    SK["mixed_first_symmetric_last"] = [(w3[k] * w3[0], 2, 2) for k in range(5)] + [(w3[k] * w3[k], 2, 2) for k in range(5)]
    dom3 = _dom(triangle, 3)
    M4 = mixed("M4", [E("Ert", triangle, 2, (2,), contravariant_piola, HDiv), E("Ep4", triangle, 2)])
    w4 = Coefficient(FunctionSpace(dom3, M4), count=8)
    SK["piola_on_manifold"] = [(w4[k] * w4[3], 3, 2) for k in range(4)] + [(w4[k] * w4[k], 3, 2) for k in range(4)]
    # the same mixed element on a flat mesh (physical size of the Piola block: 2) ...
    w4f = Coefficient(FunctionSpace(dom, M4), count=18)
    SK["piola_flat"] = [(w4f[k] * w4f[2], 2, 2) for k in range(3)] + [(w4f[k] * w4f[k], 2, 2) for k in range(3)]
    M5 = mixed("M5", [E("Eb5", triangle, 2, (), identity_pullback, H1, (), 1), E("Ep5", triangle, 2)])
    w5 = Coefficient(FunctionSpace(dom, M5), count=9)
    SK["enriched_sub_element"] = [(w5[0] * w5[0] * w5[1], 2, 2), (w5[1] ** 2, 2, 2), (w5[0], 2, 2)]
    inner_ = mixed("M6i", [E("Ea6", triangle, 2), E("Eb6", triangle, 2, (2,))])
    M6 = mixed("M6", [inner_, E("Ec6", triangle, 2)])
    w6 = Coefficient(FunctionSpace(dom, M6), count=10)
    SK["nested_mixed"] = [(w6[k] * w6[3], 2, 2) for k in range(4)] + [(w6[k] * w6[k], 2, 2) for k in range(4)]
    # Arguments (test / trial functions) on elements whose sub- and super-degree differ, used whole, through a free
    # index and through fixed components of a mixed space
    va = Argument(FunctionSpace(dom, E("Eav", triangle, 2, (), identity_pullback, H1, (), 1)), 0)
    ua = Argument(FunctionSpace(dom, E("Eau", triangle, 2, (), identity_pullback, H1, (), 1)), 1)
    pa = Argument(FunctionSpace(dom, E("Eap", triangle, 2, (2,), identity_pullback, H1, (), 1)), 0)
    qa = Argument(FunctionSpace(dom, E("Eaq", triangle, 2, (2,), identity_pullback, H1, (), 1)), 1)
    M7 = mixed("M7", [E("Ea7", triangle, 2, (), identity_pullback, H1, (), 1), E("Eb7", triangle, 2)])
    ta = Argument(FunctionSpace(dom, M7), 0)
    SK["arguments"] = [(f * ua * va, 2, 2), (ua * va, 2, 2), (grad(ua)[0] * va, 2, 2), (apply_algebra_lowering(dot(pa, qa)), 2, 2),
                       (va, 2, 2), (f * va + g * g * va, 2, 2), (ta[0] * f, 2, 2), (ta[1] * f, 2, 2), (ta[0] * ta[1], 2, 2),
                       (apply_algebra_lowering(dot(ta, ta)), 2, 2)]
    # hand-built list tensors of components that cross sub-element boundaries, in both orders (round 4, second change)
    SK["list_of_components"] = [(as_vector([w[0], w[2]])[0] * w[3], 2, 2), (as_vector([w[2], w[0]])[1] * w[3], 2, 2),
                                (as_vector([w[3], w[2], w[0]])[2], 2, 2), (inner(as_vector([w[2], w[3]]), as_vector([w[3], w[0]])), 2, 2),
                                (as_vector([w[0], w[2]]), 2, 2), (as_vector([w[3], w[1]]), 2, 2), (as_vector([w[2], w[3], w[1]]), 2, 2),
                                (as_vector([w[1] * w[2], w[3]]), 2, 2), (as_vector([grad(w)[2, 0], w[0]]), 2, 2)]
    # --- round 4: wrappers, unlowered compound operators, piecewise nodes, tensor-product cells, P_m geometry
    vf = Coefficient(FunctionSpace(dom, E("Ewv", triangle, 2, (2,))), count=21)
    vg = Coefficient(FunctionSpace(dom, E("Eww", triangle, 2, (2,))), count=22)
    SK["wrappers"] = [(f("+") * g("-"), 2, 2), (conj(f) * real(g) + imag(f * g), 2, 2), (variable(f * g) * f, 2, 2),
                      (grad(f)("+")[0] * g("-"), 2, 2), (transpose(outer(vf, vg))[0, 1] * f, 2, 2),
                      (variable(grad(vf))[0, 1] * conj(g), 2, 2), (real(vf)[0] * imag(vg)[1], 2, 2)]
    SK["compound"] = [(inner(vf, vg), 2, 2), (dot(vf, vg) * f, 2, 2), (outer(vf, vg)[0, 1], 2, 2), (div(vf) * g, 2, 2),
                      (inner(grad(vf), grad(vg)), 2, 2), (curl(vf) * g, 2, 2), (inner(nabla_grad(vf), outer(vg, vg)), 2, 2),
                      (nabla_div(vf) * nabla_div(vg), 2, 2), (dot(grad(f), vg) + div(outer(vf, vg))[0], 2, 2),
                      (inner(grad(grad(f)), outer(vg, vg)), 2, 2)]
    v3 = Coefficient(FunctionSpace(dom3, E("Ewx", triangle, 2, (3,))), count=23)
    u3 = Coefficient(FunctionSpace(dom3, E("Ewy", triangle, 2, (3,))), count=24)
    SK["compound"] += [(cross(v3, u3)[0], 3, 2), (inner(cross(v3, u3), v3), 3, 2)]
    SK["piecewise"] = [(conditional(lt(f, g), f * f, g), 2, 2), (conditional(gt(f * g, c), g, f * g) * f, 2, 2),
                       (max_value(f, g * g), 2, 2), (min_value(f * f, g) * g, 2, 2),
                       (conditional(lt(x[0], c), grad(f)[0], g) + max_value(f, g), 2, 2),
                       (min_value(max_value(f, g), f * g), 2, 2)]
    qdom = _dom(quadrilateral, 2)
    fq = Coefficient(FunctionSpace(qdom, E("Eqf", quadrilateral, 2)), count=25)
    gq = Coefficient(FunctionSpace(qdom, E("Eqg", quadrilateral, 2)), count=26)
    vq = Coefficient(FunctionSpace(qdom, E("Eqv", quadrilateral, 2, (2,))), count=27)
    SK["quadrilateral"] = [(grad(fq)[0] * gq, 2, 2), (inner(grad(fq), grad(gq)), 2, 2), (div(vq) * fq, 2, 2),
                           (grad(grad(fq))[0, 1] * grad(gq)[1], 2, 2), (fq * gq + grad(fq * gq)[0], 2, 2),
                           (nabla_grad(vq)[0, 1] * curl(vq), 2, 2)]
    cdom = Mesh(E("Xcurved", triangle, 2, (2,)))
    xc = SpatialCoordinate(cdom)
    fc = Coefficient(FunctionSpace(cdom, E("Ecf", triangle, 2)), count=28)
    SK["curved_geometry"] = [(xc[0] * xc[1] * fc, 2, 2), (xc[0] ** 2 + fc * xc[1], 2, 2), (Jacobian(cdom)[0, 1] * fc, 2, 2),
                             (Jacobian(cdom)[0, 0] * xc[1], 2, 2), (inner(xc, xc) * fc, 2, 2)]
    return SK


SK = _build()


def _worst(key):
    items = SK[key]
    if isinstance(items, tuple):
        items = [items]
    worst = None
    for e, g, t in items:
        d = gap(e, g, t)
        worst = d if worst is None or d < worst else worst
    return worst


def _set(**kw):
    for tag, v in kw.items():
        DEG[tag] = v if isinstance(v, tuple) else (v, v)


# ---- conditions ------------------------------------------------------------------------------------------


def scalar_poly_n0(p: int, q: int) -> int:
    """
    pre: 0 <= p <= 6 and 0 <= q <= 6
    post: _ >= 0
    """
    _set(Ef=p, Eg=q)
    return _worst("scalar_poly_n0")


def scalar_poly_n1(p: int, q: int) -> int:
    """
    pre: 0 <= p <= 6 and 0 <= q <= 6
    post: _ >= 0
    """
    _set(Ef=p, Eg=q)
    return _worst("scalar_poly_n1")


def scalar_poly_n2(p: int, q: int) -> int:
    """
    pre: 0 <= p <= 6 and 0 <= q <= 6
    post: _ >= 0
    """
    _set(Ef=p, Eg=q)
    return _worst("scalar_poly_n2")


def scalar_poly_n3(p: int, q: int) -> int:
    """
    pre: 0 <= p <= 6 and 0 <= q <= 6
    post: _ >= 0
    """
    _set(Ef=p, Eg=q)
    return _worst("scalar_poly_n3")


def mixed_components_k0(p: int, q: int, r: int) -> int:
    """
    pre: 0 <= p <= 4 and 0 <= q <= 4 and 0 <= r <= 4
    post: _ >= 0
    """
    _set(Ev=p, Ep=q, Eq=r)
    return _worst("mixed_components_k0")


def mixed_components_k1(p: int, q: int, r: int) -> int:
    """
    pre: 0 <= p <= 4 and 0 <= q <= 4 and 0 <= r <= 4
    post: _ >= 0
    """
    _set(Ev=p, Ep=q, Eq=r)
    return _worst("mixed_components_k1")


def mixed_components_k2(p: int, q: int, r: int) -> int:
    """
    pre: 0 <= p <= 4 and 0 <= q <= 4 and 0 <= r <= 4
    post: _ >= 0
    """
    _set(Ev=p, Ep=q, Eq=r)
    return _worst("mixed_components_k2")


def mixed_components_k3(p: int, q: int, r: int) -> int:
    """
    pre: 0 <= p <= 4 and 0 <= q <= 4 and 0 <= r <= 4
    post: _ >= 0
    """
    _set(Ev=p, Ep=q, Eq=r)
    return _worst("mixed_components_k3")


def symmetric_components(p: int, q: int, r: int) -> int:
    """
    pre: 0 <= p <= 4 and 0 <= q <= 4 and 0 <= r <= 4
    post: _ >= 0
    """
    _set(Ea=p, Eb=q, Ec=r)
    return _worst("symmetric_components")


def symmetric_in_mixed(p: int, q: int) -> int:
    """
    pre: 0 <= p <= 6 and 0 <= q <= 6
    post: _ >= 0
    """
    _set(Es=p, Eu=q)
    return _worst("symmetric_in_mixed")


def mixed_first_symmetric_last(p: int, q: int) -> int:
    """
    pre: 0 <= p <= 6 and 0 <= q <= 6
    post: _ >= 0
    """
    _set(Eh=p, Et=q)
    return _worst("mixed_first_symmetric_last")


def piola_on_manifold(p: int, q: int) -> int:
    """
    pre: 0 <= p <= 6 and 0 <= q <= 6
    post: _ >= 0
    """
    _set(Ert=p, Ep4=q)
    return _worst("piola_on_manifold")


def piola_flat_then_manifold(p: int, q: int) -> int:
    """
    pre: 0 <= p <= 5 and 0 <= q <= 5
    post: _ >= 0
    """
    # one element object used on a flat mesh first and on an immersed mesh afterwards, in one process
    _set(Ert=p, Ep4=q)
    a = _worst("piola_flat")
    b = _worst("piola_on_manifold")
    return a if a < b else b


def enriched_sub_element(p: int, s: int, q: int) -> int:
    """
    pre: 0 <= s <= p <= 6 and 0 <= q <= 6
    post: _ >= 0
    """
    _set(Eb5=(p, s), Ep5=q)
    return _worst("enriched_sub_element")


def arguments_enriched(p: int, s: int, q: int, r: int) -> int:
    """
    pre: 0 <= s <= p <= 5 and 0 <= r <= q <= 5
    post: _ >= 0
    """
    _set(Eav=(p, s), Eau=(q, r), Eap=(p, s), Eaq=(q, r), Ea7=(p, s), Eb7=(q, q), Ef=q, Eg=r)
    return _worst("arguments")


def nested_mixed(p: int, q: int, r: int) -> int:
    """
    pre: 0 <= p <= 4 and 0 <= q <= 4 and 0 <= r <= 4
    post: _ >= 0
    """
    _set(Ea6=p, Eb6=q, Ec6=r)
    return _worst("nested_mixed")


def list_of_components(p: int, q: int, r: int) -> int:
    """
    pre: 0 <= p <= 4 and 0 <= q <= 4 and 0 <= r <= 4
    post: _ >= 0
    """
    _set(Ev=p, Ep=q, Eq=r)
    return _worst("list_of_components")


def wrappers(p: int, q: int, r: int) -> int:
    """
    pre: 0 <= p <= 4 and 0 <= q <= 4 and 0 <= r <= 4
    post: _ >= 0
    """
    _set(Ef=p, Eg=q, Ewv=r, Eww=q)
    return _worst("wrappers")


def compound(p: int, q: int, r: int) -> int:
    """
    pre: 0 <= p <= 4 and 0 <= q <= 4 and 0 <= r <= 4
    post: _ >= 0
    """
    _set(Ef=p, Eg=q, Ewv=r, Eww=q, Ewx=p, Ewy=r)
    return _worst("compound")


def piecewise(p: int, q: int) -> int:
    """
    pre: 0 <= p <= 5 and 0 <= q <= 5
    post: _ >= 0
    """
    _set(Ef=p, Eg=q)
    return _worst("piecewise")


def quadrilateral_cells(p: int, q: int, r: int) -> int:
    """
    pre: 0 <= p <= 4 and 0 <= q <= 4 and 0 <= r <= 4
    post: _ >= 0
    """
    _set(Eqf=p, Eqg=q, Eqv=r)
    return _worst("quadrilateral")


def curved_geometry(m: int, p: int) -> int:
    """
    pre: 1 <= m <= 4 and 0 <= p <= 5
    post: _ >= 0
    """
    _set(Xcurved=m, Ecf=p)
    return _worst("curved_geometry")


def scalar_poly_twin(p: int, q: int) -> int:
    """
    pre: 0 <= p <= 6 and 0 <= q <= 6
    post: _ >= 1
    """
    _set(Ef=p, Eg=q)
    return _worst("twin")


# warm up global state (handler tables, flyweights) so every CrossHair path sees the same state
for _f, _a in ((scalar_poly_n0, (1, 2)), (mixed_components_k0, (1, 2, 3)), (symmetric_components, (1, 2, 3)),
               (symmetric_in_mixed, (1, 2)), (mixed_first_symmetric_last, (1, 2)), (piola_on_manifold, (1, 2)),
               (enriched_sub_element, (2, 1, 1)), (nested_mixed, (1, 2, 3)), (wrappers, (1, 2, 3)), (compound, (1, 2, 3)), (list_of_components, (1, 2, 3)),
               (piecewise, (1, 2)), (quadrilateral_cells, (1, 2, 3)), (curved_geometry, (2, 1))):
    _f(*_a)
