"""Imported by the harness modules.  CrossHair may *skip* (short-circuit) calls to functions that carry
contracts and return an arbitrary value of the annotated type instead; its own patched builtin `hash` is such
a function.  UFL hashes expressions everywhere (sets/dicts of nodes), and a short-circuited hash makes those
paths 'unknown', so conditions over UFL objects can never be confirmed.  Short-circuiting is an abstraction,
not needed for soundness: turn it off so that every call is really executed."""

try:
    import crosshair.core as _core

    def _no_interceptor(self, original):
        return original

    _core.ShortCircuitingContext.make_interceptor = _no_interceptor
except Exception:  # CrossHair not importable: harness functions still run concretely
    pass
