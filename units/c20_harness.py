"""C20 harness (CrossHair target): one dispatch step from an arbitrary registry state.

State = (k expression types registered before an algorithm class is first instantiated,
j registered afterwards).  The state is constructed directly (registry snapshot/restore),
then a *fresh instance* of each algorithm base dispatches an instance of type index t and
the handler chosen is compared with the nearest-ancestor rule computed here from the MRO.
"""

import units._xh_setup  # noqa: F401
from ufl.algorithms.transformer import Transformer
from ufl.core.expr import Expr
from ufl.core.operator import Operator
from ufl.core.ufl_type import UFLType, ufl_type
from ufl.corealg.multifunction import MultiFunction

_NAMES = ["LateAlpha", "LateBeta", "LateGamma", "LateDelta"]


def _snapshot():
    return (
        UFLType._ufl_num_typecodes_, list(UFLType._ufl_all_classes_), set(UFLType._ufl_all_handler_names_),
        list(UFLType._ufl_obj_init_counts_), list(UFLType._ufl_obj_del_counts_),
        dict(MultiFunction._handlers_cache), dict(Transformer._handlers_cache),
    )


def _restore(s):
    UFLType._ufl_num_typecodes_ = s[0]
    UFLType._ufl_all_classes_[:] = s[1]
    UFLType._ufl_all_handler_names_.clear()
    UFLType._ufl_all_handler_names_.update(s[2])
    UFLType._ufl_obj_init_counts_[:] = s[3]
    UFLType._ufl_obj_del_counts_[:] = s[4]
    MultiFunction._handlers_cache.clear()
    MultiFunction._handlers_cache.update(s[5])
    Transformer._handlers_cache.clear()
    Transformer._handlers_cache.update(s[6])


def _make_type(i, base):
    # the class must carry its final name when @ufl_type sees it (handler name = snake case of it)
    ns = {}
    src = (
        "@ufl_type(num_ops=1, inherit_shape_from_operand=0, inherit_indices_from_operand=0)\n"
        f"class {_NAMES[i]}(base):\n"
        "    __slots__ = ()\n"
        "    def __init__(self, a):\n"
        "        Operator.__init__(self, (a,))\n"
    )
    exec(src, {"ufl_type": ufl_type, "base": base, "Operator": Operator}, ns)
    return ns[_NAMES[i]]


def _algorithms():
    class MF(MultiFunction):
        def expr(self, o, *ops):
            return "expr"

        def terminal(self, o):
            return "terminal"

        def operator(self, o, *ops):
            return "operator"

        # a handler named after the second late type (if it gets registered)
        def late_beta(self, o, *ops):
            return "late_beta"

    class MF2(MultiFunction):
        def expr(self, o, *ops):
            return "expr"

        def late_alpha(self, o, *ops):
            return "late_alpha"

    class TA(Transformer):
        def expr(self, o, *ops):
            return "expr"

        def operator(self, o, *ops):
            return "operator"

        def late_beta(self, o, *ops):
            return "late_beta"

        def terminal(self, o):
            return "terminal"

    class TB(Transformer):
        def expr(self, o, *ops):
            return "expr"

        def late_alpha(self, o, *ops):
            return "late_alpha"

        def terminal(self, o):
            return "terminal"

    return MF, MF2, TA, TB


def _expected(alg_cls, typ):
    for c in typ.mro():
        n = getattr(c, "_ufl_handler_name_", None)
        if n and hasattr(alg_cls, n):
            return n
    return None


def dispatch_state(k: int, j: int, t: int, chain: int, order: int) -> int:
    """Return 0 if every algorithm dispatches type t like the nearest-ancestor rule and like a
    pristine-cache instance; a positive code identifying the failing algorithm otherwise.

    k, j in 0..2: types registered before / after first use; t: index of the dispatched type among
    the late types (0..k+j-1) or -1 for an old type; chain: 1 = each late type derives from the previous;
    order: instantiation order of the two transformer classes after registration.
    """
    from ufl.constantvalue import FloatValue

    snap = _snapshot()
    try:
        MF, MF2, TA, TB = _algorithms()
        algs = [MF, MF2, TA, TB]
        types = []
        base = Operator
        for i in range(k):
            T = _make_type(i, base)
            types.append(T)
            if chain:
                base = T
        # first use of every algorithm class
        for A in algs:
            A()
        for i in range(k, k + j):
            T = _make_type(i, base)
            types.append(T)
            if chain:
                base = T
        x = FloatValue(2.0)
        if t < 0 or not types:
            obj = x
        else:
            obj = types[t % len(types)](x)
        seq = [MF, MF2, TA, TB] if order == 0 else [MF2, MF, TB, TA]
        for code, A in enumerate(seq, start=1):
            inst = A()
            want = _expected(A, type(obj))
            try:
                got = inst(obj) if isinstance(inst, MultiFunction) else inst.visit(obj)
            except Exception:
                return 10 + code
            if got != want:
                return 20 + code
            # same answer as an instance created with pristine caches
            MultiFunction._handlers_cache.pop(A, None)
            Transformer._handlers_cache.pop(A, None)
            fresh = A()
            got2 = fresh(obj) if isinstance(fresh, MultiFunction) else fresh.visit(obj)
            if got2 != got:
                return 30 + code
        return 0
    finally:
        _restore(snap)


def check_dispatch(k: int, j: int, t: int, chain: int, order: int) -> int:
    """
    pre: 0 <= k <= 2 and 0 <= j <= 2 and -1 <= t <= 3 and 0 <= chain <= 1 and 0 <= order <= 1
    post: _ == 0
    """
    return dispatch_state(k, j, t, chain, order)


def check_dispatch_twin(k: int, j: int, t: int, chain: int, order: int) -> int:
    """
    pre: 0 <= k <= 2 and 0 <= j <= 2 and -1 <= t <= 3 and 0 <= chain <= 1 and 0 <= order <= 1
    post: _ == 1
    """
    return dispatch_state(k, j, t, chain, order)




def check_k0_j0_c0_o0(t: int) -> int:
    """
    pre: -1 <= t <= 3
    post: _ == 0
    """
    return dispatch_state(0, 0, t, 0, 0)


def check_k0_j0_c0_o1(t: int) -> int:
    """
    pre: -1 <= t <= 3
    post: _ == 0
    """
    return dispatch_state(0, 0, t, 0, 1)


def check_k0_j0_c1_o0(t: int) -> int:
    """
    pre: -1 <= t <= 3
    post: _ == 0
    """
    return dispatch_state(0, 0, t, 1, 0)


def check_k0_j0_c1_o1(t: int) -> int:
    """
    pre: -1 <= t <= 3
    post: _ == 0
    """
    return dispatch_state(0, 0, t, 1, 1)


def check_k0_j1_c0_o0(t: int) -> int:
    """
    pre: -1 <= t <= 3
    post: _ == 0
    """
    return dispatch_state(0, 1, t, 0, 0)


def check_k0_j1_c0_o1(t: int) -> int:
    """
    pre: -1 <= t <= 3
    post: _ == 0
    """
    return dispatch_state(0, 1, t, 0, 1)


def check_k0_j1_c1_o0(t: int) -> int:
    """
    pre: -1 <= t <= 3
    post: _ == 0
    """
    return dispatch_state(0, 1, t, 1, 0)


def check_k0_j1_c1_o1(t: int) -> int:
    """
    pre: -1 <= t <= 3
    post: _ == 0
    """
    return dispatch_state(0, 1, t, 1, 1)


def check_k0_j2_c0_o0(t: int) -> int:
    """
    pre: -1 <= t <= 3
    post: _ == 0
    """
    return dispatch_state(0, 2, t, 0, 0)


def check_k0_j2_c0_o1(t: int) -> int:
    """
    pre: -1 <= t <= 3
    post: _ == 0
    """
    return dispatch_state(0, 2, t, 0, 1)


def check_k0_j2_c1_o0(t: int) -> int:
    """
    pre: -1 <= t <= 3
    post: _ == 0
    """
    return dispatch_state(0, 2, t, 1, 0)


def check_k0_j2_c1_o1(t: int) -> int:
    """
    pre: -1 <= t <= 3
    post: _ == 0
    """
    return dispatch_state(0, 2, t, 1, 1)


def check_k1_j0_c0_o0(t: int) -> int:
    """
    pre: -1 <= t <= 3
    post: _ == 0
    """
    return dispatch_state(1, 0, t, 0, 0)


def check_k1_j0_c0_o1(t: int) -> int:
    """
    pre: -1 <= t <= 3
    post: _ == 0
    """
    return dispatch_state(1, 0, t, 0, 1)


def check_k1_j0_c1_o0(t: int) -> int:
    """
    pre: -1 <= t <= 3
    post: _ == 0
    """
    return dispatch_state(1, 0, t, 1, 0)


def check_k1_j0_c1_o1(t: int) -> int:
    """
    pre: -1 <= t <= 3
    post: _ == 0
    """
    return dispatch_state(1, 0, t, 1, 1)


def check_k1_j1_c0_o0(t: int) -> int:
    """
    pre: -1 <= t <= 3
    post: _ == 0
    """
    return dispatch_state(1, 1, t, 0, 0)


def check_k1_j1_c0_o1(t: int) -> int:
    """
    pre: -1 <= t <= 3
    post: _ == 0
    """
    return dispatch_state(1, 1, t, 0, 1)


def check_k1_j1_c1_o0(t: int) -> int:
    """
    pre: -1 <= t <= 3
    post: _ == 0
    """
    return dispatch_state(1, 1, t, 1, 0)


def check_k1_j1_c1_o1(t: int) -> int:
    """
    pre: -1 <= t <= 3
    post: _ == 0
    """
    return dispatch_state(1, 1, t, 1, 1)


def check_k1_j2_c0_o0(t: int) -> int:
    """
    pre: -1 <= t <= 3
    post: _ == 0
    """
    return dispatch_state(1, 2, t, 0, 0)


def check_k1_j2_c0_o1(t: int) -> int:
    """
    pre: -1 <= t <= 3
    post: _ == 0
    """
    return dispatch_state(1, 2, t, 0, 1)


def check_k1_j2_c1_o0(t: int) -> int:
    """
    pre: -1 <= t <= 3
    post: _ == 0
    """
    return dispatch_state(1, 2, t, 1, 0)


def check_k1_j2_c1_o1(t: int) -> int:
    """
    pre: -1 <= t <= 3
    post: _ == 0
    """
    return dispatch_state(1, 2, t, 1, 1)


def check_k2_j0_c0_o0(t: int) -> int:
    """
    pre: -1 <= t <= 3
    post: _ == 0
    """
    return dispatch_state(2, 0, t, 0, 0)


def check_k2_j0_c0_o1(t: int) -> int:
    """
    pre: -1 <= t <= 3
    post: _ == 0
    """
    return dispatch_state(2, 0, t, 0, 1)


def check_k2_j0_c1_o0(t: int) -> int:
    """
    pre: -1 <= t <= 3
    post: _ == 0
    """
    return dispatch_state(2, 0, t, 1, 0)


def check_k2_j0_c1_o1(t: int) -> int:
    """
    pre: -1 <= t <= 3
    post: _ == 0
    """
    return dispatch_state(2, 0, t, 1, 1)


def check_k2_j1_c0_o0(t: int) -> int:
    """
    pre: -1 <= t <= 3
    post: _ == 0
    """
    return dispatch_state(2, 1, t, 0, 0)


def check_k2_j1_c0_o1(t: int) -> int:
    """
    pre: -1 <= t <= 3
    post: _ == 0
    """
    return dispatch_state(2, 1, t, 0, 1)


def check_k2_j1_c1_o0(t: int) -> int:
    """
    pre: -1 <= t <= 3
    post: _ == 0
    """
    return dispatch_state(2, 1, t, 1, 0)


def check_k2_j1_c1_o1(t: int) -> int:
    """
    pre: -1 <= t <= 3
    post: _ == 0
    """
    return dispatch_state(2, 1, t, 1, 1)


def check_k2_j2_c0_o0(t: int) -> int:
    """
    pre: -1 <= t <= 3
    post: _ == 0
    """
    return dispatch_state(2, 2, t, 0, 0)


def check_k2_j2_c0_o1(t: int) -> int:
    """
    pre: -1 <= t <= 3
    post: _ == 0
    """
    return dispatch_state(2, 2, t, 0, 1)


def check_k2_j2_c1_o0(t: int) -> int:
    """
    pre: -1 <= t <= 3
    post: _ == 0
    """
    return dispatch_state(2, 2, t, 1, 0)


def check_k2_j2_c1_o1(t: int) -> int:
    """
    pre: -1 <= t <= 3
    post: _ == 0
    """
    return dispatch_state(2, 2, t, 1, 1)
