"""C20 side check (concrete, run in a fresh interpreter): algorithms *of the library* that keep tables of their own
indexed by type code must work for a type registered after their first use.  Prints 'RESULT <ok> <detail>'."""

import sys


def main():
    import ufl
    from ufl import Mesh, triangle
    from ufl.algorithms.apply_geometry_lowering import apply_geometry_lowering
    from ufl.classes import CellVolume, FacetArea, FacetNormal
    from ufl.core.ufl_type import ufl_type

    from vlib.elements import P

    from ufl.algorithms.renumbering import renumber_indices

    def canon(e):
        return repr(renumber_indices(e))   # fresh summation indices are created on every lowering

    mesh = Mesh(P(triangle, 1, (2,)), ufl_id=77)
    before = {q.__name__: canon(apply_geometry_lowering(q(mesh))) for q in (CellVolume, FacetArea)}
    apply_geometry_lowering(CellVolume(mesh), (FacetNormal,))

    @ufl_type()
    class LateCellVolume(CellVolume):
        __slots__ = ()

    @ufl_type()
    class LateFacetArea(FacetArea):
        __slots__ = ()

    problems = []
    for late, base in ((LateCellVolume, "CellVolume"), (LateFacetArea, "FacetArea")):
        for preserve in ((), (FacetNormal,)):
            try:
                got = canon(apply_geometry_lowering(late(mesh), preserve))
            except Exception as ex:  # noqa: BLE001
                problems.append(f"{late.__name__} preserve={len(preserve)}: {type(ex).__name__}: {str(ex)[:80]}")
                continue
            # nearest-ancestor handler: the late type is lowered exactly like its base class
            if got != before[base]:
                problems.append(f"{late.__name__} preserve={len(preserve)}: lowered differently from {base}")
    print("RESULT", not problems, "; ".join(problems)[:400])


if __name__ == "__main__":
    sys.path.insert(0, "/verif")
    main()
