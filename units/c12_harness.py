"""C12 harness (CrossHair targets): the canonical operand ordering must not depend on the absolute values of
the global counters, only on creation order: cmp(t(m), t(n)) == cmp(t(m+s), t(n+s))."""

import units._xh_setup  # noqa: F401
from ufl import Argument, Coefficient, Constant, FunctionSpace, Mesh, SpatialCoordinate, triangle
from ufl.classes import FacetNormal, Index, Indexed, Label, MultiIndex, Variable
from ufl.sorting import cmp_expr

from vlib.elements import P

_X1 = P(triangle, 1, (2,))
_M0 = Mesh(_X1, ufl_id=0)
_V = FunctionSpace(_M0, P(triangle, 1))
_Vv = FunctionSpace(_M0, P(triangle, 1, (2,)))
_A = Coefficient(_Vv, count=99990)
_MESH = {i: Mesh(_X1, ufl_id=i) for i in range(0, 130)}


def conc(x, lo, hi):
    for i in range(lo, hi + 1):
        if x == i:
            return i
    return hi


def sgn(c):
    return -1 if c < 0 else (1 if c > 0 else 0)


MK = {
    "Coefficient": lambda c: Coefficient(_V, count=c),
    "Constant": lambda c: Constant(_M0, count=c),
    "ConstantVec": lambda c: Constant(_M0, (2,), count=c),
    "Label": lambda c: Label(count=c),
    "IndexedFree": lambda c: Indexed(_A, MultiIndex((Index(count=c),))),
    "Variable": lambda c: Variable(Coefficient(_V, count=7), Label(count=c)),
    "CoordOnMesh": lambda c: SpatialCoordinate(_MESH[c]),
    "NormalOnMesh": lambda c: FacetNormal(_MESH[c]),
    "CoefOnMesh": lambda c: Coefficient(FunctionSpace(_MESH[c], P(triangle, 1)), count=5),
}

# (m, n) pairs with m < n around the digit boundaries, s shifts
BASE = [0, 1, 8, 9, 10, 11, 98, 99, 100, 101]


def shift_invariant(kind, im, in_, is_):
    """0 if cmp(t(m), t(n)) == cmp(t(m+s), t(n+s)) for the selected base counts / shift."""
    im, in_, is_ = conc(im, 0, len(BASE) - 1), conc(in_, 0, len(BASE) - 1), conc(is_, 0, 4)
    m, n = BASE[im], BASE[in_]
    if not m < n:
        return 0
    s = [0, 1, 2, 10, 20][is_]
    mk = MK[kind]
    c0 = sgn(cmp_expr(mk(m), mk(n)))
    c1 = sgn(cmp_expr(mk(m + s), mk(n + s)))
    return 0 if c0 == c1 else 1


# ---- generated conditions ----


def shift_Coefficient(im: int, in_: int, is_: int) -> int:
    """
    pre: 0 <= im <= 9 and 0 <= in_ <= 9 and 0 <= is_ <= 4
    post: _ == 0
    """
    return shift_invariant("Coefficient", im, in_, is_)


def shift_Constant(im: int, in_: int, is_: int) -> int:
    """
    pre: 0 <= im <= 9 and 0 <= in_ <= 9 and 0 <= is_ <= 4
    post: _ == 0
    """
    return shift_invariant("Constant", im, in_, is_)


def shift_ConstantVec(im: int, in_: int, is_: int) -> int:
    """
    pre: 0 <= im <= 9 and 0 <= in_ <= 9 and 0 <= is_ <= 4
    post: _ == 0
    """
    return shift_invariant("ConstantVec", im, in_, is_)


def shift_Label(im: int, in_: int, is_: int) -> int:
    """
    pre: 0 <= im <= 9 and 0 <= in_ <= 9 and 0 <= is_ <= 4
    post: _ == 0
    """
    return shift_invariant("Label", im, in_, is_)


def shift_IndexedFree(im: int, in_: int, is_: int) -> int:
    """
    pre: 0 <= im <= 9 and 0 <= in_ <= 9 and 0 <= is_ <= 4
    post: _ == 0
    """
    return shift_invariant("IndexedFree", im, in_, is_)


def shift_Variable(im: int, in_: int, is_: int) -> int:
    """
    pre: 0 <= im <= 9 and 0 <= in_ <= 9 and 0 <= is_ <= 4
    post: _ == 0
    """
    return shift_invariant("Variable", im, in_, is_)


def shift_CoordOnMesh(im: int, in_: int, is_: int) -> int:
    """
    pre: 0 <= im <= 9 and 0 <= in_ <= 9 and 0 <= is_ <= 4
    post: _ == 0
    """
    return shift_invariant("CoordOnMesh", im, in_, is_)


def shift_NormalOnMesh(im: int, in_: int, is_: int) -> int:
    """
    pre: 0 <= im <= 9 and 0 <= in_ <= 9 and 0 <= is_ <= 4
    post: _ == 0
    """
    return shift_invariant("NormalOnMesh", im, in_, is_)


def shift_CoefOnMesh(im: int, in_: int, is_: int) -> int:
    """
    pre: 0 <= im <= 9 and 0 <= in_ <= 9 and 0 <= is_ <= 4
    post: _ == 0
    """
    return shift_invariant("CoefOnMesh", im, in_, is_)


def shift_twin(im: int, in_: int, is_: int) -> int:
    """
    pre: 0 <= im <= 9 and 0 <= in_ <= 9 and 0 <= is_ <= 4
    post: _ == 1
    """
    return shift_invariant("Coefficient", im, in_, is_)


shift_invariant("Constant", 0, 1, 1)
