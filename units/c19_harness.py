"""C19 harness (CrossHair targets): DAG traversal and mapping on DAGs built from a symbolic adjacency list.

nodes = [leaf0, leaf1, n0, n1, ...]; internal node i has a symbolic kind (unary / binary / cutoff-unary) and
symbolic operand positions among the earlier nodes, so every DAG shape with the given number of internal
nodes (incl. arbitrary sharing and structurally equal duplicates) is covered by the symbolic variables.
"""

import units._xh_setup  # noqa: F401
from ufl import Coefficient, FunctionSpace, Mesh, triangle
from ufl.core.expr import Expr
from ufl.corealg.map_dag import map_expr_dag
from ufl.corealg.multifunction import MultiFunction
from ufl.corealg.traversal import (cutoff_unique_post_traversal, unique_post_traversal, unique_pre_traversal)

from units.c19_types import GenBinary, GenCut, GenUnary
from vlib.elements import P

_dom = Mesh(P(triangle, 1, (2,)))
_V = FunctionSpace(_dom, P(triangle, 1))
LEAVES = [Coefficient(_V, count=7001), Coefficient(_V, count=7002)]


def key(e):
    """Structural key computed by the harness (recursive)."""
    if e._ufl_is_terminal_:
        return ("t", e.count())
    return (type(e).__name__,) + tuple(key(o) for o in e.ufl_operands)


def subkeys(e, acc):
    acc.add(key(e))
    for o in e.ufl_operands:
        subkeys(o, acc)
    return acc


def subkeys_cut(e, acc):
    acc.add(key(e))
    if not isinstance(e, GenCut):
        for o in e.ufl_operands:
            subkeys_cut(o, acc)
    return acc


class Tupler(MultiFunction):
    """Handlers building nested tuples; leaf results are equal-but-distinct objects (1, 1.0) on purpose."""

    def __init__(self):
        MultiFunction.__init__(self)

    def terminal(self, o):
        return 1 if o.count() == 7001 else 1.0

    def gen_unary(self, o, a):
        return ("u", a)

    def gen_binary(self, o, a, b):
        return ("b", a, b)

    def gen_cut(self, o, a):
        return ("c", a)


TUPLER = Tupler()
CUT = [False] * Expr._ufl_num_typecodes_
CUT[GenCut._ufl_typecode_] = True


def rec(f, e):
    if e._ufl_is_terminal_:
        return f(e)
    return f(e, *[rec(f, o) for o in e.ufl_operands])


def conc(x, n):
    """Branch on a symbolic int so that only concrete values flow into UFL code (one solver-decided
    path per value)."""
    for i in range(n):
        if x == i:
            return i
    return n


def build(kinds, c1, c2):
    nodes = list(LEAVES)
    for k, a, b in zip(kinds, c1, c2):
        k, a, b = conc(k, 3), conc(a, len(nodes)), conc(b, len(nodes))
        x = nodes[a]
        if k == 0:
            nodes.append(GenUnary(x))
        elif k == 1:
            nodes.append(GenBinary(x, nodes[b]))
        else:
            nodes.append(GenCut(x))
    return nodes[-1]


def props(root):
    """0 if all traversal / mapping properties hold on this DAG, else a code."""
    want = subkeys(root, set())
    post = [key(v) for v in unique_post_traversal(root)]
    if len(set(post)) != len(post):
        return 1
    if set(post) != want:
        return 2
    seen = set()
    for v in unique_post_traversal(root):
        for o in v.ufl_operands:
            if key(o) not in seen:
                return 3
        seen.add(key(v))
    pre = [key(v) for v in unique_pre_traversal(root)]
    if len(set(pre)) != len(pre) or set(pre) != want or pre[0] != key(root):
        return 4
    cpost = [key(v) for v in cutoff_unique_post_traversal(root, CUT)]
    if len(set(cpost)) != len(cpost) or set(cpost) != subkeys_cut(root, set()):
        return 5
    f = TUPLER          # instantiated once at import (building handler tables under the tracer is slow)
    want_r = rec(f, root)
    got_nc = map_expr_dag(f, root, compress=False)
    if repr(got_nc) != repr(want_r):
        return 6
    got_c = map_expr_dag(f, root, compress=True)
    if got_c != want_r:
        return 7
    return 0


def shape1(k0: int, a0: int, b0: int) -> int:
    """
    pre: 0 <= k0 <= 2 and 0 <= a0 <= 1 and 0 <= b0 <= 1
    post: _ == 0
    """
    return props(build([k0], [a0], [b0]))


def shape2_k00(a0: int, b0: int, a1: int, b1: int) -> int:
    """
    pre: 0 <= a0 <= 1 and 0 <= b0 <= 1 and 0 <= a1 <= 2 and 0 <= b1 <= 2
    post: _ == 0
    """
    return props(build([0, 0], [a0, a1], [b0, b1]))


def shape2_k01(a0: int, b0: int, a1: int, b1: int) -> int:
    """
    pre: 0 <= a0 <= 1 and 0 <= b0 <= 1 and 0 <= a1 <= 2 and 0 <= b1 <= 2
    post: _ == 0
    """
    return props(build([0, 1], [a0, a1], [b0, b1]))


def shape2_k02(a0: int, b0: int, a1: int, b1: int) -> int:
    """
    pre: 0 <= a0 <= 1 and 0 <= b0 <= 1 and 0 <= a1 <= 2 and 0 <= b1 <= 2
    post: _ == 0
    """
    return props(build([0, 2], [a0, a1], [b0, b1]))


def shape2_k10(a0: int, b0: int, a1: int, b1: int) -> int:
    """
    pre: 0 <= a0 <= 1 and 0 <= b0 <= 1 and 0 <= a1 <= 2 and 0 <= b1 <= 2
    post: _ == 0
    """
    return props(build([1, 0], [a0, a1], [b0, b1]))


def shape2_k11(a0: int, b0: int, a1: int, b1: int) -> int:
    """
    pre: 0 <= a0 <= 1 and 0 <= b0 <= 1 and 0 <= a1 <= 2 and 0 <= b1 <= 2
    post: _ == 0
    """
    return props(build([1, 1], [a0, a1], [b0, b1]))


def shape2_k12(a0: int, b0: int, a1: int, b1: int) -> int:
    """
    pre: 0 <= a0 <= 1 and 0 <= b0 <= 1 and 0 <= a1 <= 2 and 0 <= b1 <= 2
    post: _ == 0
    """
    return props(build([1, 2], [a0, a1], [b0, b1]))


def shape2_k20(a0: int, b0: int, a1: int, b1: int) -> int:
    """
    pre: 0 <= a0 <= 1 and 0 <= b0 <= 1 and 0 <= a1 <= 2 and 0 <= b1 <= 2
    post: _ == 0
    """
    return props(build([2, 0], [a0, a1], [b0, b1]))


def shape2_k21(a0: int, b0: int, a1: int, b1: int) -> int:
    """
    pre: 0 <= a0 <= 1 and 0 <= b0 <= 1 and 0 <= a1 <= 2 and 0 <= b1 <= 2
    post: _ == 0
    """
    return props(build([2, 1], [a0, a1], [b0, b1]))


def shape2_k22(a0: int, b0: int, a1: int, b1: int) -> int:
    """
    pre: 0 <= a0 <= 1 and 0 <= b0 <= 1 and 0 <= a1 <= 2 and 0 <= b1 <= 2
    post: _ == 0
    """
    return props(build([2, 2], [a0, a1], [b0, b1]))


def shape3_bb(a1: int, b1: int, a2: int, b2: int) -> int:
    """
    pre: 0 <= a1 <= 2 and 0 <= b1 <= 2 and 0 <= a2 <= 3 and 0 <= b2 <= 3
    post: _ == 0
    """
    return props(build([1, 1, 1], [0, a1, a2], [1, b1, b2]))


def shape3_ub(a1: int, b1: int, a2: int, b2: int) -> int:
    """
    pre: 0 <= a1 <= 2 and 0 <= b1 <= 2 and 0 <= a2 <= 3 and 0 <= b2 <= 3
    post: _ == 0
    """
    return props(build([0, 1, 1], [0, a1, a2], [0, b1, b2]))


def shape3_cb(a1: int, b1: int, a2: int, b2: int) -> int:
    """
    pre: 0 <= a1 <= 2 and 0 <= b1 <= 2 and 0 <= a2 <= 3 and 0 <= b2 <= 3
    post: _ == 0
    """
    return props(build([2, 1, 1], [1, a1, a2], [0, b1, b2]))


def shape3_bc(a0: int, b0: int, a1: int, a2: int, b2: int) -> int:
    """
    pre: 0 <= a0 <= 1 and 0 <= b0 <= 1 and 0 <= a1 <= 2 and 0 <= a2 <= 3 and 0 <= b2 <= 3
    post: _ == 0
    """
    return props(build([1, 2, 1], [a0, a1, a2], [b0, 0, b2]))


def shape2_twin(a0: int, b0: int, a1: int, b1: int) -> int:
    """
    pre: 0 <= a0 <= 1 and 0 <= b0 <= 1 and 0 <= a1 <= 2 and 0 <= b1 <= 2
    post: _ == 1
    """
    return props(build([1, 1], [a0, a1], [b0, b1]))


# warm up global state
props(build([1, 2, 1], [0, 2, 3], [1, 0, 2]))
