"""Generic operator types for the C19 harness (kept in their own module: CrossHair's loader must not
re-execute @ufl_type definitions)."""

from ufl.core.operator import Operator
from ufl.core.ufl_type import ufl_type


@ufl_type(num_ops=1, inherit_shape_from_operand=0, inherit_indices_from_operand=0)
class GenUnary(Operator):
    __slots__ = ()

    def __init__(self, a):
        Operator.__init__(self, (a,))

    def __str__(self):
        return f"g1({self.ufl_operands[0]})"


@ufl_type(num_ops=2, inherit_shape_from_operand=0, inherit_indices_from_operand=0)
class GenBinary(Operator):
    __slots__ = ()

    def __init__(self, a, b):
        Operator.__init__(self, (a, b))

    def __str__(self):
        return f"g2({self.ufl_operands[0]}, {self.ufl_operands[1]})"


@ufl_type(num_ops=1, inherit_shape_from_operand=0, inherit_indices_from_operand=0)
class GenCut(Operator):
    """A type used as cutoff type in the cutoff traversals."""

    __slots__ = ()

    def __init__(self, a):
        Operator.__init__(self, (a,))

    def __str__(self):
        return f"cut({self.ufl_operands[0]})"
