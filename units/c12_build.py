"""Build fixed forms in a fresh interpreter with the global counters pre-advanced by `shift` and print their
signatures (used by checks/C12.py as the end-to-end replay, under different PYTHONHASHSEEDs)."""

import json
import sys

sys.path.insert(0, "/verif")


def main(shift):
    import ufl
    from ufl import (Argument, Coefficient, Constant, FunctionSpace, Mesh, SpatialCoordinate, TestFunction, TrialFunction,
                     conditional, dS, ds, dx, exp, grad, inner, jump, lt, sin, triangle, variable)
    from ufl.classes import Index, Label

    from vlib.elements import P, RT

    X1 = P(triangle, 1, (2,))
    # advance every global counter by `shift` (creation order below is then the same, absolute numbers differ)
    for _ in range(shift):
        m_ = Mesh(X1)
        V_ = FunctionSpace(m_, P(triangle, 1))
        Coefficient(V_)
        Constant(m_)
        Index()
        Label()
    out = {}
    mesh = Mesh(X1)
    V = FunctionSpace(mesh, P(triangle, 1))
    W = FunctionSpace(mesh, P(triangle, 2, (2,)))
    v, u = TestFunction(V), TrialFunction(V)
    f, g, h = Coefficient(V), Coefficient(V), Coefficient(W)
    out["coefficients"] = ((f + 2 * g) * (f * g) * v * dx + inner(h, grad(v)) * g * ds).signature()
    i, j = ufl.indices(2)
    out["indices"] = (h[i] * h[i] * v * dx + grad(h)[i, j] * grad(h)[j, i] * v * dx).signature()
    i2, j2, k2 = ufl.indices(3)
    T2 = grad(h)
    out["indices_multi"] = (T2[i2, j2] * T2[i2, j2] * v * dx + T2[i2, j2] * T2[j2, k2] * T2[k2, i2] * v * dx
                            + T2[i2, j2] * T2[j2, i2] * h[k2] * h[k2] * v * ds).signature()
    a = variable(f * g)
    b = variable(sin(f))
    out["variables"] = ((a * b + ufl.diff(a * a, a) + b) * v * dx).signature()
    out["bilinear"] = (inner(grad(u), grad(v)) * f * dx + jump(u) * jump(v) * g("+") * dS).signature()
    c, d = Constant(mesh), Constant(mesh)
    out["constants"] = ((c + 2 * d) * (c * d) * v * dx).signature()
    c2 = Constant(mesh, (2,))
    out["constant_and_coef"] = ((c * f + c2[0] * g) * v * dx).signature()
    # several meshes: one integration domain, terminals on others
    m2, m3, m4 = Mesh(X1), Mesh(X1), Mesh(X1)
    k2, k3, k4 = (Coefficient(FunctionSpace(mm, P(triangle, 1))) for mm in (m2, m3, m4))
    out["extra_meshes"] = ((k2 * k3 + k4) * f * v * dx(mesh)).signature()
    x2, x3 = SpatialCoordinate(m2), SpatialCoordinate(m3)
    out["coords_two_meshes"] = ((x2[0] + 2 * x3[0]) * (x2[0] * x3[0]) * f * v * dx(mesh)).signature()
    out["conditional"] = (conditional(lt(f, g), exp(f), g * g) * v * dx(degree=3)).signature()
    # history inside one process: a function space over a MeshSequence used by two forms that integrate over different
    # component meshes; the signature of F must not depend on whether the other form was signed first
    try:
        import os

        sys.path.insert(0, os.path.join(os.path.dirname(os.path.dirname(ufl.__file__)), "test"))
        from utils import LagrangeElement, MixedElement

        from ufl import Measure, MeshSequence, split

        def build_ms():
            ma, mb = Mesh(LagrangeElement(triangle, 1, (2,))), Mesh(LagrangeElement(triangle, 1, (2,)))
            elem = MixedElement([LagrangeElement(triangle, 1), LagrangeElement(triangle, 2)], make_cell_sequence=True)
            Vm = FunctionSpace(MeshSequence([ma, mb]), elem)
            fm = Coefficient(Vm)
            f0, f1 = split(fm)
            return f0 * f1 * Measure("dx", ma), f0 * f1 * Measure("dx", mb)

        _, Fa = build_ms()
        sa = Fa.signature()
        other_b, Fb = build_ms()
        other_b.signature()
        sb = Fb.signature()
        out["history/meshsequence_space"] = "same" if sa == sb else f"DIFFERENT fresh={sa[:12]} after-other-form={sb[:12]}"
        out["meshsequence_forms_built"] = "yes"
    except Exception as ex:  # noqa: BLE001  (mixed-domain support missing or changed: not this check's subject)
        out["history/meshsequence_space"] = "same"
        out["meshsequence_forms_built"] = "no: " + type(ex).__name__
    print("SIGS " + json.dumps(out))


if __name__ == "__main__":
    main(int(sys.argv[1]))
