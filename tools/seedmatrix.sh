#!/bin/bash
# Run every kept seeded change against the checks expected to catch it (quick tier) and record the outcome.
# /repo is patched and always restored by tools/seedtest.sh; nothing else may use /repo meanwhile.
cd /verif
OUT=/verif/seeded/RESULTS.tsv
echo -e "change\tcheck\ttier\tresult" > $OUT
python3 - <<'PY' > /tmp/seedmatrix.list
import json, glob, os
for mf in sorted(glob.glob('/verif/seeded/*/meta.json')):
    m = json.load(open(mf)); d = os.path.dirname(mf)
    for c in m['changes']:
        if c.get('kept', True) is False: continue
        for chk in c['caught_by']:
            print(os.path.join(d, c['patch']), chk)
PY
while read patch chk; do
  res=$(tools/seedtest.sh $patch quick $chk 2>&1 | grep -v "^WARNING")
  if echo "$res" | grep -q "^VIOLATION property=$chk"; then r=caught; else r=MISSED; fi
  echo -e "${patch#/verif/seeded/}\t$chk\tquick\t$r" | tee -a $OUT
done < /tmp/seedmatrix.list
git -C /repo status --short
