#!/bin/bash
# Run every kept seeded change against the checks expected to catch it (quick tier) and record the outcome in
# seeded/RESULTS.tsv.  usage: tools/seedmatrix.sh [jobs]   (jobs > 1: concurrent runs on scratch worktrees under /tmp/seedwt,
# removed afterwards; jobs = 1: apply to /repo itself and revert, one at a time)
cd /verif
jobs=${1:-4}
OUT=/verif/seeded/RESULTS.tsv
python3 - <<'PY' > /tmp/seedmatrix.list
import json, glob, os
for mf in sorted(glob.glob('/verif/seeded/*/meta.json') + glob.glob('/verif/seeded/*/r2/meta.json') + glob.glob('/verif/seeded/*/r3/meta.json')):
    m = json.load(open(mf)); d = os.path.dirname(mf)
    for c in m['changes']:
        if c.get('kept', True) is False: continue
        for chk in c['caught_by']:
            print(os.path.join(d, c['patch']), chk)
PY
if [ -n "$MATRIX_FILTER" ]; then grep -E "$MATRIX_FILTER" /tmp/seedmatrix.list > /tmp/seedmatrix.list.f; mv /tmp/seedmatrix.list.f /tmp/seedmatrix.list; fi
rm -rf /tmp/seedmatrix.out; mkdir -p /tmp/seedmatrix.out
one() {
  slot=$1; patch=$2; chk=$3
  if [ "$jobs" -gt 1 ]; then export SEED_TREE=/tmp/seedwt/$slot; fi
  res=$(VERIF_WORKERS=${VERIF_WORKERS:-5} tools/seedtest.sh $patch quick $chk 2>&1 | grep -v "^WARNING")
  if echo "$res" | grep -q "^VIOLATION property=$chk"; then r=caught; else r=MISSED; fi
  echo -e "${patch#/verif/seeded/}\t$chk\tquick\t$r" > /tmp/seedmatrix.out/$(echo "${patch#/verif/seeded/}_$chk" | tr '/' '_')
  echo -e "${patch#/verif/seeded/}\t$chk\t$r"
}
if [ "$jobs" -gt 1 ]; then
  mkdir -p /tmp/seedwt
  for s in $(seq 1 $jobs); do git -C /repo worktree add --detach -f /tmp/seedwt/$s HEAD >/dev/null 2>&1; done
  n=0
  while read patch chk; do
    n=$((n+1)); slot=$(( (n-1) % jobs + 1 ))
    echo "$slot $patch $chk"
  done < /tmp/seedmatrix.list > /tmp/seedmatrix.slots
  for s in $(seq 1 $jobs); do
    ( grep "^$s " /tmp/seedmatrix.slots | while read slot patch chk; do one $slot $patch $chk; done ) &
  done
  wait
  for s in $(seq 1 $jobs); do git -C /repo worktree remove --force /tmp/seedwt/$s; done
  rmdir /tmp/seedwt 2>/dev/null
else
  while read patch chk; do one 0 $patch $chk; done < /tmp/seedmatrix.list
fi
if [ -n "$MATRIX_FILTER" ] && [ -f $OUT ]; then
  # partial run: replace only the re-run rows
  python3 - <<'PY2'
import glob
out='/verif/seeded/RESULTS.tsv'
rows={}
for l in open(out).read().splitlines()[1:]:
    f=l.split('\t'); rows[(f[0],f[1])]=l
for fn in glob.glob('/tmp/seedmatrix.out/*'):
    for l in open(fn).read().splitlines():
        f=l.split('\t'); rows[(f[0],f[1])]=l
open(out,'w').write("change\tcheck\ttier\tresult\n"+"\n".join(rows[k] for k in sorted(rows))+"\n")
PY2
else
  echo -e "change\tcheck\ttier\tresult" > $OUT
  cat /tmp/seedmatrix.out/* | sort >> $OUT
fi
git -C /repo status --short
