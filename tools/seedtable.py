#!/usr/bin/env python3
"""Render the seeded-change table of DESIGN.md (between the SEEDTABLE markers) from seeded/*/meta.json and seeded/RESULTS.tsv."""
import glob
import json
import os
import re

ROOT = os.path.dirname(os.path.dirname(os.path.abspath(__file__)))
res = {}
for line in open(os.path.join(ROOT, "seeded", "RESULTS.tsv")).read().splitlines()[1:]:
    ch, ck, tier, r = line.split("\t")
    res.setdefault(ch, []).append((ck, r))
rows = ["| change | site | caught by (quick tier) |", "|---|---|---|"]
for mf in sorted(glob.glob(os.path.join(ROOT, "seeded", "*", "meta.json")) + glob.glob(os.path.join(ROOT, "seeded", "*", "r2", "meta.json")) + glob.glob(os.path.join(ROOT, "seeded", "*", "r3", "meta.json")) + glob.glob(os.path.join(ROOT, "seeded", "*", "r4", "meta.json"))):
    d = os.path.relpath(os.path.dirname(mf), os.path.join(ROOT, "seeded"))
    m = json.load(open(mf))
    for c in m["changes"]:
        key = f"{d}/{c['patch']}"
        files = ", ".join(os.path.basename(f) for f in c.get("files", [])) or ("reverts " + c.get("reverts", ""))
        if c.get("kept", True) is False:
            rows.append(f"| {d}/{c['patch'][:-5]} | {files} | not kept: {c['why_not_kept'].split(':')[0][:90]} |")
            continue
        r = res.get(key, [])
        txt = ", ".join(f"{ck}" + ("" if ok == "caught" else " (MISSED)") for ck, ok in r) or "not run"
        if c.get("not_caught"):
            txt = "**" + c["not_caught"] + "**"
        if c.get("check_strengthened_first"):
            txt += " — after strengthening: " + c["check_strengthened_first"]
        rows.append(f"| {d}/{c['patch'][:-5]} | {files} | {txt} |")
table = "\n".join(rows)
p = os.path.join(ROOT, "DESIGN.md")
s = open(p).read()
if "<!-- SEEDTABLE -->" in s:
    s = re.sub(r"<!-- SEEDTABLE -->.*?<!-- /SEEDTABLE -->", "<!-- SEEDTABLE -->\n" + table + "\n<!-- /SEEDTABLE -->", s, flags=re.S)
else:
    s = s.replace("\nSEEDTABLE\n", "\n<!-- SEEDTABLE -->\n" + table + "\n<!-- /SEEDTABLE -->\n")
open(p, "w").write(s)
print(len(rows) - 2, "rows")
