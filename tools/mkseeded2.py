#!/usr/bin/env python3
"""Assemble /verif/seeded/<id>/r2/ from the round-2 sub-agent deliverables (one-off helper; inputs under /tmp/seed_in2,
verification results in /tmp/verify_seeds2.tsv)."""
import json
import os
import re
import shutil
import sys

sys.path.insert(0, os.path.dirname(os.path.abspath(__file__)))
from mkseeded import needs_from_notes  # noqa: E402

SRC = "/tmp/seed_in2"
DST = "/verif/seeded"
# checks that catch each change (the first is the owner); strengthened = the check had to be extended first
CAUGHT = {
    "C01": {"A": ["C06"], "B": ["C17", "C01"]}, "C06": {"A": ["C06"], "B": ["C05"]},
}
STRENGTHENED = {
    ("C02", "B"): "C02 got derivative requests w.r.t. one / two fixed components of a tensor-valued coefficient",
    ("C05", "B"): "C05 got indexing of component tensors over list tensors whose entries carry free indices",
    ("C07", "A"): "C07 got context-independence obligations (several quantities lowered in one expression)",
    ("C12", "A"): "C12's end-to-end replay got counter shifts covering every residue modulo 8 and multiply contracted products",
    ("C13", "B"): "C13's pickle side check got zeros with free indices and by-stander invariants",
    ("C14", "B"): "C14 got conditionals with the argument in the false branch",
    ("C16", "B"): "C16 got MixedFunctionSpace actions with explicit coefficients on non-prefix parts",
    ("C17", "B"): "C17 got rejection obligations for unrestricted cell-relative facet quantities",
    ("C18", "B"): "C18 got Argument skeletons on elements with sub-degree < super-degree",
    ("C19", "A"): "C19's dispatch tables got algorithm classes derived from an already instantiated algorithm class",
    ("C24", "B"): "C24 got two evaluations through one mapping object with new values",
    ("C25", "A"): "C25 got carriers mixing directional spaces of different dimension",
    ("C28", "A"): "C28 got derivatives of weighted sums of scalar actions whose components vanish selectively",
    ("C29", "A"): "C29's pool got float literals with equal digit groups", ("C29", "B"): "C29's pool got list tensors one a prefix of the other",
}
verified = {}
for line in open("/tmp/verify_seeds2.tsv"):
    f = line.rstrip("\n").split("\t")
    verified[(f[0], f[1])] = dict(patch_file=f[2], test_suite=f[3], demo_on_patched_tree=f[4], demo_on_clean_tree=f[5])
for pid in sorted(os.listdir(SRC)):
    d = os.path.join(DST, pid, "r2")
    os.makedirs(d, exist_ok=True)
    notes = open(os.path.join(SRC, pid, "NOTES.md")).read() if os.path.exists(os.path.join(SRC, pid, "NOTES.md")) else ""
    if notes:
        open(os.path.join(d, "NOTES.md"), "w").write(notes)
    changes = []
    for L in "AB":
        sp = os.path.join(SRC, pid, f"patch{L}.diff")
        if not os.path.exists(sp):
            continue
        shutil.copy(sp, os.path.join(d, f"patch{L}.diff"))
        shutil.copy(os.path.join(SRC, pid, f"demo{L}.py"), os.path.join(d, f"demo{L}.py"))
        files = re.findall(r"^\+\+\+ b/(\S+)", open(sp).read(), re.M)
        v = verified.get((pid, L), {})
        ok = v.get("test_suite", "").startswith("977 passed") and v.get("demo_on_patched_tree") == "mut_rc=1" and v.get("demo_on_clean_tree") == "clean_rc=0"
        changes.append({
            "patch": f"patch{L}.diff", "demonstration": f"demo{L}.py", "files": files,
            "needs_to_manifest": needs_from_notes(notes, L) or "see NOTES.md",
            "what_i_ran": {
                "where": f"scratch worktree of /repo at /tmp/wt2/{pid} (the demonstrations hard-code that path), reset to /repo HEAD, removed afterwards",
                "commands": [f"git apply patch{L}.diff", "/venv/bin/python -m pytest -q -p no:cacheprovider -n 8", f"/venv/bin/python demo{L}.py  (patched tree)",
                             "git checkout -- .", f"/venv/bin/python demo{L}.py  (clean tree)"],
                "results": v,
            },
            "kept": bool(ok),
            "why_not_kept": None if ok else "does not satisfy the keeping criteria on the current HEAD (see results); stored for reference only",
            "caught_by": CAUGHT.get(pid, {}).get(L, [pid]),
            "check_strengthened_first": STRENGTHENED.get((pid, L)),
        })
    prop = [json.loads(l) for l in open("/verif/properties.jsonl") if json.loads(l)["id"] == pid][0]
    json.dump({"property": pid, "round": 2, "title": prop["title"], "statement": prop["statement"],
               "origin": "fresh sub-agent (second round) given only the property text and a scratch worktree of /repo; nothing from /verif",
               "changes": changes}, open(os.path.join(d, "meta.json"), "w"), indent=1)
    print(pid, [(c["patch"], c["kept"]) for c in changes])
