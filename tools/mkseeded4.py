#!/usr/bin/env python3
"""One-off assembler for round-4 seeded changes: reads /tmp/r4out_<id>/ (patch.diff, demo.py, meta.json of the sub-agent)
and writes seeded/<id>/r4/{patchA.diff,demoA.py,meta.json}.  usage: mkseeded4.py <id> <caught-by> <first-result> [<strengthening>]"""
import json
import os
import re
import shutil
import sys

ROOT = os.path.dirname(os.path.dirname(os.path.abspath(__file__)))
p, caught_by, first = sys.argv[1:4]
strengthened = (sys.argv[4] if len(sys.argv) > 4 else None) or None
SLOT = os.environ.get("SLOT", "A")   # SLOT=B appends a second change to an existing r4/meta.json
src = f"/tmp/r4out_{p}"
d = os.path.join(ROOT, "seeded", p, "r4")
os.makedirs(d, exist_ok=True)
shutil.copy(f"{src}/patch.diff", f"{d}/patch{SLOT}.diff")
open(f"{d}/demo{SLOT}.py", "w").write(re.sub(r"/tmp/r4_C[0-9]+", "<worktree>", open(f"{src}/demo.py").read()))
m = json.load(open(f"{src}/meta.json"))
prop = [json.loads(l) for l in open(os.path.join(ROOT, "properties.jsonl")) if json.loads(l)["id"] == p][0]
files = re.findall(r"^diff --git a/(\S+)", open(f"{src}/patch.diff").read(), flags=re.M)
ch = {"patch": f"patch{SLOT}.diff", "demonstration": f"demo{SLOT}.py", "files": files, "summary": m.get("summary"),
      "needs_to_manifest": m.get("needs"), "agent_ran": m.get("ran"),
      "what_i_ran": {"where": f"scratch worktree /tmp/r4_{p} of /repo HEAD d5909d2 (removed afterwards)",
                     "commands": ["PYTHONPATH=<wt> /venv/bin/python demoA.py (clean tree) -> rc 0", "git apply patchA.diff",
                                  "PYTHONPATH=<wt> /venv/bin/python -m pytest -q -p no:cacheprovider -n 8 test -> 977 passed",
                                  "PYTHONPATH=<wt> /venv/bin/python demoA.py -> rc 1", "git checkout -- .",
                                  f"SEED_TREE=<wt> tools/seedtest.sh patchA.diff quick {caught_by}"]},
      "check_result": first}
if strengthened:
    ch["check_strengthened_first"] = strengthened
meta = {"property": p, "round": 4, "title": prop["title"],
        "origin": "fresh sub-agent (fourth round) given only the property text and a scratch worktree of /repo; nothing from /verif",
        "changes": [ch]}
if SLOT != "A" and os.path.exists(f"{d}/meta.json"):
    meta = json.load(open(f"{d}/meta.json"))
    meta["changes"] = [c for c in meta["changes"] if c["patch"] != ch["patch"]] + [ch]
json.dump(meta, open(f"{d}/meta.json", "w"), indent=1)
tsv = os.path.join(ROOT, "seeded", "RESULTS.tsv")
lines = [l for l in open(tsv).read().splitlines() if not l.startswith(f"{p}/r4/patch{SLOT}")]
for ck in caught_by.split(","):
    lines.append(f"{p}/r4/patch{SLOT}.diff\t{ck}\tquick\tcaught")
open(tsv, "w").write("\n".join(lines) + "\n")
print("stored", d)
