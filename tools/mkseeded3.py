#!/usr/bin/env python3
"""Assemble /verif/seeded/<id>/r3/ from the round-3 sub-agent deliverables (one-off helper; inputs under /tmp/seed_in2,
verification results in /tmp/verify_seeds3.tsv)."""
import json
import os
import re
import shutil
import sys

sys.path.insert(0, os.path.dirname(os.path.abspath(__file__)))
from mkseeded import needs_from_notes  # noqa: E402

SRC = "/tmp/seed_in3"
DST = "/verif/seeded"
# checks that catch each change (the first is the owner); strengthened = the check had to be extended first
CAUGHT = {
    "C06": {"A": ["C05"], "B": ["C05"]}, "C24": {"A": ["C24"], "B": ["C06"]}, "C17": {"A": ["C25"], "B": ["C17"]},
    "C15": {"A": ["C15"], "B": ["C15"]}, "C12": {"A": ["C12"], "B": ["C12"]}, "C20": {"A": ["C20"], "B": ["C20"]},
}
NOT_CAUGHT = {
}
STRENGTHENED = {
    ("C03", "A"): "C03 got expressions over two meshes of different geometric dimension", ("C03", "B"): "C03 got derivative requests on elements with sub-degree 0 < super-degree, with a definition-based oracle for the derivative constructors",
    ("C06", "B"): "C05 got transposes of rectangular zeros", ("C07", "A"): "C07 got affine meshes with a discontinuous P1 coordinate field",
    ("C09", "B"): "C09 got a shadowing seed whose free index sits in the base of a list tensor", ("C10", "A"): "C10 got chained capture seeds (two images, one of them bound inside)",
    ("C10", "B"): "C10 got two tensor spaces of equal shape with different component-to-dof maps", ("C13", "B"): "C13 got a form-level side check (nested metadata key order)",
    ("C14", "A"): "C14 got list tensors mixing conjugated and unconjugated components of one argument", ("C14", "B"): "C14 got sequences (a rejected integrand first, in the same process and on the same mesh)",
    ("C15", "A"): "C15 got first- and second-order coordinate derivatives in the same direction",
    ("C15", "B"): "C15 got a history obligation: an integral type registered (ufl.measure.register_integral_type) after a first grouping in the same process", ("C16", "B"): "C16 got theta-scheme forms whose Variable nodes share labels after replace()",
    ("C20", "B"): "C20 got a concrete side check in a fresh interpreter: apply_geometry_lowering on geometric quantity types registered after its first use",
    ("C12", "B"): "C12's replay got a history entry: a function space over a MeshSequence used by two forms over different component meshes, signed in both orders within one process",
    ("C18", "A"): "C18 got one mixed element used on a flat and then on an immersed mesh in one process", ("C19", "B"): "C19 got two differently configured instances with a memoised handler",
    ("C21", "A"): "C21 got an unexpanded derivative with an image containing the differentiation variable", ("C21", "B"): "C21 got nabla_grad of a 3-vector on a 2D mesh with constant images",
    ("C22", "B"): "C22 got upper/lower triangular MixedFunctionSpace couplings", ("C23", "A"): "C23 got compared operands that contain conditionals / min / max",
    ("C25", "B"): "C25 got membership queries on short-lived equal space objects", ("C29", "A"): "C29 got a second cmp table after evaluating == on all pairs",
    ("C29", "B"): "C29 got float literals agreeing to 15 digits and value-based literal keys",
}
verified = {}
for line in open("/tmp/verify_seeds3.tsv"):
    f = line.rstrip("\n").split("\t")
    verified[(f[0], f[1])] = dict(patch_file=f[2], test_suite=f[3], demo_on_patched_tree=f[4], demo_on_clean_tree=f[5])
for pid in sorted(os.listdir(SRC)):
    d = os.path.join(DST, pid, "r3")
    os.makedirs(d, exist_ok=True)
    notes = open(os.path.join(SRC, pid, "NOTES.md")).read() if os.path.exists(os.path.join(SRC, pid, "NOTES.md")) else ""
    if notes:
        open(os.path.join(d, "NOTES.md"), "w").write(notes)
    changes = []
    for L in "AB":
        sp = os.path.join(SRC, pid, f"patch{L}.diff")
        if not os.path.exists(sp):
            continue
        shutil.copy(sp, os.path.join(d, f"patch{L}.diff"))
        if os.path.exists(os.path.join(SRC, pid, f"patch{L}_orig.diff")):
            shutil.copy(os.path.join(SRC, pid, f"patch{L}_orig.diff"), os.path.join(d, f"patch{L}_orig.diff"))
        shutil.copy(os.path.join(SRC, pid, f"demo{L}.py"), os.path.join(d, f"demo{L}.py"))
        files = re.findall(r"^\+\+\+ b/(\S+)", open(sp).read(), re.M)
        v = verified.get((pid, L), {})
        ok = v.get("test_suite", "").startswith("977 passed") and v.get("demo_on_patched_tree") == "mut_rc=1" and v.get("demo_on_clean_tree") == "clean_rc=0"
        changes.append({
            "patch": f"patch{L}.diff", "demonstration": f"demo{L}.py", "files": files,
            "needs_to_manifest": needs_from_notes(notes, L) or "see NOTES.md",
            "what_i_ran": {
                "where": f"scratch worktree of /repo at /tmp/wt3/{pid} (the demonstrations hard-code that path), reset to /repo HEAD, removed afterwards",
                "commands": [f"git apply patch{L}.diff", "/venv/bin/python -m pytest -q -p no:cacheprovider -n 8", f"/venv/bin/python demo{L}.py  (patched tree)",
                             "git checkout -- .", f"/venv/bin/python demo{L}.py  (clean tree)"],
                "results": v,
            },
            "kept": bool(ok),
            "why_not_kept": None if ok else "does not satisfy the keeping criteria on the current HEAD (see results); stored for reference only",
            "caught_by": CAUGHT.get(pid, {}).get(L, [pid]),
            "not_caught": NOT_CAUGHT.get((pid, L)),
            "check_strengthened_first": STRENGTHENED.get((pid, L)),
        })
    prop = [json.loads(l) for l in open("/verif/properties.jsonl") if json.loads(l)["id"] == pid][0]
    json.dump({"property": pid, "round": 3, "title": prop["title"], "statement": prop["statement"],
               "origin": "fresh sub-agent (third round) given only the property text and a scratch worktree of /repo; nothing from /verif",
               "changes": changes}, open(os.path.join(d, "meta.json"), "w"), indent=1)
    print(pid, [(c["patch"], c["kept"]) for c in changes])
