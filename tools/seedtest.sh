#!/bin/bash
# usage: tools/seedtest.sh <patch.diff> <tier> <prop> [<prop>...]
# Applies a seeded change to /repo, runs the given checks, and ALWAYS reverts.
patch=$1; tier=$2; shift 2
cd /repo || exit 9
if [ -n "$(git status --porcelain --untracked-files=no)" ]; then echo "repo dirty"; exit 9; fi
git apply "$patch" || { echo "patch does not apply"; exit 9; }
trap 'git -C /repo checkout -- . ' EXIT
cd /verif
for p in "$@"; do
  out=$(VERIF_EVIDENCE_DIR=/tmp/seed_evidence VERIF_TIER=$tier ./vf check $p --tier $tier 2>&1)
  rc=$?
  echo "== $p rc=$rc $(echo "$out" | grep -c '^VIOLATION') violation line(s)"
  echo "$out" | grep -E "^VIOLATION|^  obligation|^INCONCLUSIVE|^\[" | head -8
done
