#!/bin/bash
# usage: tools/seedtest.sh <patch.diff> <tier> <prop> [<prop>...]
# Applies a seeded change to /repo, runs the given checks, and ALWAYS reverts.
# With SEED_TREE=<scratch worktree of /repo outside /repo and /verif> the change is applied there instead and the
# checks analyse that tree (VERIF_REPO); used to run several seeded changes concurrently.
patch=$(readlink -f "$1"); tier=$2; shift 2
tree=${SEED_TREE:-/repo}
cd $tree || exit 9
if [ -n "$(git status --porcelain --untracked-files=no)" ]; then echo "tree dirty"; exit 9; fi
git apply "$patch" || { echo "patch does not apply"; exit 9; }
trap "git -C $tree checkout -- ." EXIT
cd /verif
for p in "$@"; do
  if [ "$tree" = /repo ]; then
    out=$(VERIF_EVIDENCE_DIR=/tmp/seed_evidence VERIF_TIER=$tier ./vf check $p --tier $tier 2>&1)
  else
    out=$(VERIF_REPO=$tree VERIF_EVIDENCE_DIR=/tmp/seed_evidence/$(basename $tree) VERIF_TIER=$tier ./vf check $p --tier $tier 2>&1)
  fi
  rc=$?
  echo "== $p rc=$rc $(echo "$out" | grep -c '^VIOLATION') violation line(s)"
  echo "$out" | grep -E "^VIOLATION|^  obligation|^INCONCLUSIVE|^\[" | head -8
done
