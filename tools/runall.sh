#!/bin/bash
# usage: tools/runall.sh [quick|thorough]  -- runs every registered check, prints the summary lines
tier=${1:-quick}
cd "$(dirname "$0")/.."
for id in $(python3 -c "import json;print(' '.join(c['property_id'] for c in json.load(open('MANIFEST.json'))['checks']))"); do
  t0=$(date +%s)
  out=$(./vf check $id --tier $tier 2>&1); rc=$?
  echo "$id rc=$rc $(( $(date +%s) - t0 ))s :: $(echo "$out" | grep -E '^\[' | tail -1)"
  if [ $rc -ne 0 ]; then echo "$out" | grep -E "^VIOLATION|^INCONCLUSIVE|^  obligation" | head -5; fi
done
