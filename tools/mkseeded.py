#!/usr/bin/env python3
"""Assemble /verif/seeded/<id>/ from the sub-agent deliverables (one-off helper; inputs under /tmp/seed_in)."""
import json
import os
import re
import shutil
import subprocess

SRC = "/tmp/seed_in"
DST = "/verif/seeded"
CAUGHT = {
    "C01": {"A": ["C01", "C09"], "B": ["C06"]}, "C02": {"A": ["C02"], "B": ["C02"]}, "C03": {"A": ["C03"], "B": ["C03", "C02"]},
    "C04": {"A": ["C04"], "B": ["C04"]}, "C05": {"A": ["C05"], "B": ["C06"]}, "C06": {"A": ["C06"], "B": ["C05"]},
    "C07": {"A": ["C07"], "B": ["C07"]}, "C08": {"A": ["C08", "C01"], "B": ["C08", "C01"]}, "C09": {"A": ["C09"], "B": ["C09"]},
    "C10": {"A": ["C10"], "B": ["C10"]}, "C12": {"A": ["C12"], "B": ["C12"]}, "C13": {"A": ["C13"], "B": ["C13"]},
    "C14": {"A": ["C14"], "B": ["C14"]}, "C15": {"A": ["C15"], "B": ["C15"]}, "C16": {"A": ["C16"], "B": ["C16"]},
    "C17": {"A": ["C17"], "B": ["C17"]}, "C18": {"A": ["C18"], "B": ["C18"]}, "C19": {"A": ["C19"], "B": ["C19"]},
    "C20": {"A": ["C20"], "B": ["C20"]}, "C21": {"A": ["C21"], "B": ["C21"]}, "C22": {"A": ["C22"], "B": ["C22"]},
    "C23": {"A": ["C23"], "B": ["C23"]}, "C24": {"A": ["C24"], "B": ["C24"]}, "C25": {"A": ["C25"], "B": ["C25"]},
    "C26": {"A": ["C26"], "B": ["C26"]}, "C28": {"A": ["C28"], "B": ["C28"]}, "C29": {"A": ["C29"], "B": ["C29"]},
}
REBASED = {("C19", "B"): "rebased onto fix b2b37aa (handler lookup skips non-UFL mixins): the original hunk no longer applied",
           ("C24", "B"): "rebased onto fix f028513 (Conditional.evaluate condition component): the original hunk no longer applied"}
WHY_NOT = {
    ("C25", "A"): "on the current HEAD it fails the unedited suite (test_sobolevspace.py::test_contains_hdiv, test_contains_hcurl): after fix c3b76a2 "
                  "(directional Sobolev membership via <=) __contains__ goes through the patched comparison, which the existing tests exercise. "
                  "It passed the suite when produced (before that fix) and was caught by C25 then; stored for reference only.",
    ("C12", "A"): "no longer breaks the property on the current HEAD: it makes _cmp_coefficient delegate to _cmp_terminal_by_repr, which since fix "
                  "3ba7944 compares embedded counts by value; its demonstration now passes on the patched tree. It was caught by C12 (and by the "
                  "demonstration) before that fix; stored for reference only.",
}
verified = {}
for line in (open("/tmp/verify_seeds.tsv") if os.path.exists("/tmp/verify_seeds.tsv") else []):
    f = line.rstrip("\n").split("\t")
    verified[(f[0], f[1])] = dict(patch_file=f[2], test_suite=f[3], demo_on_patched_tree=f[4], demo_on_clean_tree=f[5])


def needs_from_notes(notes, letter):
    """The paragraph following 'needed to manifest' inside the section of change <letter>."""
    secs = re.split(r"\n(?=## )", notes)
    sec = None
    for s in secs:
        head = s.split("\n", 1)[0]
        if re.search(rf"\b(Change|Patch|Mutant|Mutation)\s+{letter}\b", head, re.I) or re.search(rf"patch{letter}(\.diff)?\b", head):
            sec = s
            break
    if sec is None:
        return None
    m = re.search(r"(?im)^.*\b(needed|needs)\b.*manifest.*$", sec)
    if not m:
        m = re.search(r"(?im)^.*manifest.*$", sec)
    if not m:
        return None
    tail = sec[m.start():]
    para = re.split(r"\n\s*\n(?=\S)", tail)
    text = para[0]
    if len(text) < 120 and len(para) > 1:
        text += "\n" + para[1]
    return text.strip()[:2500]


def main():
    for pid in sorted(os.listdir(SRC)):
        if not pid.startswith("C"):
            continue
        d = os.path.join(DST, pid)
        os.makedirs(d, exist_ok=True)
        notes = open(os.path.join(SRC, pid, "NOTES.md")).read() if os.path.exists(os.path.join(SRC, pid, "NOTES.md")) else ""
        if notes:
            open(os.path.join(d, "NOTES.md"), "w").write(notes)
        changes = []
        for L in "AB":
            src_patch = os.path.join(SRC, pid, f"patch{L}.diff")
            if (pid, L) == ("C19", "B"):
                shutil.copy(os.path.join(SRC, pid, "patchB.diff"), os.path.join(d, "patchB_orig.diff"))
                src_patch = os.path.join(SRC, pid, "patchB_rebased.diff")
            if (pid, L) == ("C24", "B"):
                shutil.copy(os.path.join(SRC, pid, "patchB_orig.diff"), os.path.join(d, "patchB_orig.diff"))
            if not os.path.exists(src_patch):
                continue
            shutil.copy(src_patch, os.path.join(d, f"patch{L}.diff"))
            shutil.copy(os.path.join(SRC, pid, f"demo{L}.py"), os.path.join(d, f"demo{L}.py"))
            files = re.findall(r"^\+\+\+ b/(\S+)", open(src_patch).read(), re.M)
            v = verified.get((pid, L), {})
            ok = v.get("test_suite", "").startswith("977 passed") and v.get("demo_on_patched_tree") == "mut_rc=1" and v.get("demo_on_clean_tree") == "clean_rc=0"
            changes.append({
                "patch": f"patch{L}.diff", "demonstration": f"demo{L}.py", "files": files,
                "needs_to_manifest": needs_from_notes(notes, L) or "see NOTES.md",
                "rebased": REBASED.get((pid, L)),
                "what_i_ran": {
                    "where": f"scratch worktree `git -C /repo worktree add --detach /tmp/wt/{pid} HEAD` (the demonstrations hard-code that path), removed afterwards",
                    "commands": [f"git apply patch{L}.diff", "/venv/bin/python -m pytest -q -p no:cacheprovider -n 8", f"/venv/bin/python demo{L}.py  (patched tree)",
                                 "git checkout -- .", f"/venv/bin/python demo{L}.py  (clean tree)"],
                    "results": v,
                },
                "kept": bool(ok),
                "why_not_kept": None if ok else WHY_NOT.get((pid, L), "does not satisfy the keeping criteria on the current HEAD; stored for reference only"),
                "caught_by": CAUGHT.get(pid, {}).get(L, []),
            })
        prop = None
        for line in open("/verif/properties.jsonl"):
            p = json.loads(line)
            if p["id"] == pid:
                prop = p
        json.dump({"property": pid, "title": prop["title"], "statement": prop["statement"],
                   "origin": "fresh sub-agent given only the property text and a scratch worktree of /repo; nothing from /verif",
                   "changes": changes}, open(os.path.join(d, "meta.json"), "w"), indent=1)
        print(pid, [(c["patch"], c["kept"], len(c["needs_to_manifest"])) for c in changes])


if __name__ == "__main__":
    main()
