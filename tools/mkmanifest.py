#!/usr/bin/env python3
"""Regenerate MANIFEST.json from the table below (keeps it schema-valid)."""
import json
import os

ROOT = os.path.dirname(os.path.dirname(os.path.abspath(__file__)))

E1_NOTE = ("Trusted base: the independent denotation (vlib/denote.py, vlib/geometry.py), the fraction/radical "
           "domain and SMT-LIB2 emission (vlib/ring.py, vlib/terms.py) and z3. Assumes reals for floats, "
           "non-zero denominators, radicands in domain, affine simplex cells; skeletons are bounded by the "
           "generators in checks/<id>.py (bounds are written into the evidence file).")

CHECKS = {
    "C06": dict(
        level="translation_validation",
        text="For every generated operator/shape/mode skeleton the real apply_algebra_lowering runs and z3 "
             "proves (unsat) that its output denotes the same value as the defining equation of the operator "
             "for ALL tensor entries (operands: terminals, sums, scaled, transposed, dense list tensors and list tensors "
             "with literal zeros in five patterns); sat models are replayed numerically before being reported.",
        technique="SMT translation validation (z3, nonlinear real arithmetic) of the real lowering pass per skeleton",
        design="§4 C06", engine="E1"),
}

CHECKS["C05"] = dict(
    level="translation_validation",
    text="Every public operator/constructor case is executed for real on operand skeletons (terminals, zeros, "
         "literals, sums, list tensors, permuting component tensors, shared/repeated free indices); shape and "
         "free indices are compared with the requested operation and z3 proves the built expression equals "
         "the requested operation written directly over the operand values, for all operand values. The free-index "
         "bookkeeping helpers behind every constructor (merge_unique_indices, merge_overlapping_indices, remove_indices, "
         "unique_sorted_indices) are additionally run under CrossHair with symbolic ids and dimensions against set-level "
         "specifications (Confirmed over all paths).",
    technique="SMT translation validation of constructor simplifications (z3 NRA) + CrossHair on index-merge utilities",
    design="§4 C05", engine="E1")

CHECKS["C10"] = dict(
    level="translation_validation",
    text="expand_indices, remove_component_tensors and renumber_indices are run on hand-seeded hygiene skeletons "
         "(same Index object bound in nested scopes: capture and shadowing through IndexSum / ComponentTensor binders; "
         "variables, zeros with free indices) and on VERIF_SEED-driven grammar samples over a 3-index pool with index "
         "reuse across scopes; z3 proves the output denotes the same value under lexical index "
         "scoping for all field values; shape/free indices compared directly.",
    technique="SMT translation validation of index-rewriting passes (z3 NRA) on bounded index-notation skeletons",
    design="§4 C10", engine="E1")

CHECKS["C09"] = dict(
    level="translation_validation",
    text="cancel_jacobian_products (after remove_component_tensors) runs on seeded J/K/Identity contractions "
         "(both orders, interchanged sums, the same Index object in two contractions), on reciprocal/nested power "
         "patterns and on post-derivative expressions produced by the real pipeline for Piola elements; z3 proves "
         "in == out for every J (K defined as its inverse / pseudo-inverse, detJ of either sign) and all field values.",
    technique="SMT translation validation (z3 NRA, radicals by side facts/rewriting) of the cancellation pass",
    design="§4 C09", engine="E1")
CHECKS["C08"] = dict(
    level="translation_validation",
    text="apply_function_pullbacks runs per element kind (all seven pull backs, rank-raised variants, nested mixed, "
         "symmetric with heterogeneous sub-elements) on affine cells incl. immersed ones; z3 proves the rewritten "
         "physical value equals the push-forward written from its definition for all reference values and all J; "
         "FunctionSpace.value_shape is compared with the shape by definition.",
    technique="SMT translation validation (z3 NRA) of pullback application against push-forward definitions",
    design="§4 C08", engine="E1")

CHECKS["C03"] = dict(
    level="translation_validation",
    text="expand_derivatives runs on (operand from a pool covering every operator category) x (grad, div, curl, "
         "nabla_grad, nabla_div, .dx) at order 1 and on order-2 compositions; z3 proves the expanded expression "
         "equals the derivative computed by dual-number (jet) arithmetic over the input for all jet values; "
         "derivatives-only-on-terminals is checked structurally; geometric seeds use an affine cell model.",
    technique="SMT translation validation (z3 NRA + uninterpreted functions with ground textbook lemma instances) "
              "against dual-number jet semantics",
    design="§4 C03", engine="E1")

CHECKS["C02"] = dict(
    level="translation_validation",
    text="expand_derivatives(derivative(F, w, v)) runs for integrands from the operator pool and for w whole / one "
         "component / tuple in both orders / mixed whole / sub-function, directions that are arguments, coefficients "
         "or expressions, second derivatives and user-supplied coefficient relations (also two different relations "
         "in one expansion); the perturbation is built from the request, and z3 proves the result equals the "
         "epsilon part of F over dual numbers for all field values.",
    technique="SMT translation validation (z3 NRA + UF lemma instances) against dual-number Gateaux semantics",
    design="§4 C02", engine="E1")
CHECKS["C04"] = dict(
    level="translation_validation",
    text="expand_derivatives(diff(f, v)) for scalar/vector/tensor variables of terminals and of expressions "
         "(including ones apply_derivatives rewrites), nested variables, two variables of equal shape in one "
         "expansion, repeated diff and diff w.r.t. coefficients; z3 proves each component equals the partial "
         "derivative w.r.t. the variable's value (unit perturbation of the label) for all field values.",
    technique="SMT translation validation (z3 NRA) against labelled dual-number perturbations",
    design="§4 C04", engine="E1")

CHECKS["C21"] = dict(
    level="translation_validation",
    text="replace(e, m) runs for (expression incl. derivatives, restrictions, variables) x (mapping incl. zero and "
         "python-number images, swaps, self-referential images, absent keys), one multi-integral form and a "
         "three-step replace sequence over variables; z3 proves the result equals e evaluated with the mapped "
         "terminals (and their derivatives) overridden by their images; shape-changing mappings must raise.",
    technique="SMT translation validation (z3 NRA) against substitution semantics in the environment",
    design="§4 C21", engine="E1")
CHECKS["C14"] = dict(
    level="translation_validation",
    text="check_integrand_arity runs on integrand skeletons in real and complex mode; whenever it accepts, z3 must "
         "prove the integrand linear (antilinear in the test function in complex mode) jointly in all parts of each "
         "argument number, for all field and argument values; an accepted integrand with a replayed non-linearity "
         "is a violation; rejected integrands need no proof.",
    technique="SMT decision of semantic multilinearity (z3 NRA over complex pairs) for every accepted integrand",
    design="§4 C14", engine="E1")

CHECKS["C16"] = dict(
    level="translation_validation",
    text="lhs/rhs/system/functional run on forms with factored sums, restricted sums of mixed arity, several "
         "subdomains and MixedFunctionSpace parts; action/adjoint/energy_norm (with and without explicit "
         "coefficient) on bilinear forms in real and complex mode; z3 proves F == lhs - rhs, the multilinearity "
         "of the parts, functional(F) == F at zero arguments, action == substitution, adjoint == conjugate with "
         "swapped arguments and energy_norm == a(f, f), per (integral type, subdomain), for all values.",
    technique="SMT translation validation (z3 NRA) of form transformations against substitution/linearity semantics",
    design="§4 C16", engine="E1")
CHECKS["C22"] = dict(
    level="translation_validation",
    text="extract_blocks runs on mixed-element and MixedFunctionSpace forms (mass, cross-weighted, gradient, "
         "two-sided interior facet, linear; square systems and rectangular ones whose test and trial spaces have "
         "different numbers of sub-elements or a plain trial space), replace_argument on/off, all blocks or one at a time; "
         "the block table must be n_test x n_trial and z3 proves each "
         "block equals the form with the arguments replaced by the embedded i-th / j-th sub-functions for all "
         "values (so blocks sum to the form and depend only on their sub-functions); None blocks must be zero.",
    technique="SMT translation validation (z3 NRA) of block extraction against embedding semantics",
    design="§4 C22", engine="E1")

CHECKS["C07"] = dict(
    level="translation_validation",
    text="apply_geometry_lowering runs per geometric quantity, cell (interval/triangle/tetrahedron, immersed too) "
         "and local facet; the lowered expression is denoted over symbolic edge vectors and z3 decides the "
         "specification predicates (K J = I, Gram-determinant volume identities, circumcentre equation, min/max "
         "edge lengths, unit/orthogonal/outward normals, ...) for all vertex positions; sign predicates are decided "
         "as implications under the radical side facts. Context obligations: several quantities lowered in one call "
         "(same mesh; two distinct meshes with equal coordinate elements, each denoted with its own primitive symbols) "
         "must equal each lowered alone.",
    technique="SMT validation of lowered geometry against specification predicates (z3 NRA, radical rewriting)",
    design="§4 C07", engine="E1")

CHECKS["C01"] = dict(
    level="translation_validation",
    text="compute_form_data runs on ~30 forms (H1/H(div)/H(curl)/tensor/mixed/symmetric elements, conditionals, math "
         "functions, geometric quantities, exterior and two-sided interior facets) on intervals, triangles and "
         "tetrahedra incl. immersed cells, over combinations of the five lowering options and real/complex mode; for "
         "each integral data entry z3 proves the preprocessed integrand sum equals the original integrand (physical "
         "fields defined from reference jets by the declared push-forward) times the documented scale factor, for all "
         "jets and all Jacobians; a raise is an accepted outcome.",
    technique="SMT translation validation (z3 NRA, radicals/orientation by rewriting) of the whole preprocessing pipeline",
    design="§4 C01", engine="E1")

CHECKS["C17"] = dict(
    level="translation_validation",
    text="apply_restrictions runs on interior-facet integrand skeletons (jump/avg, restricted sums/products, "
         "gradients, facet normals on both sides, unrestricted continuous data) with and without default "
         "restrictions on flat and immersed cells, and through compute_form_data for dS/dS_h/dS_v; z3 proves "
         "in == out in a two-sided environment with continuity built in; restriction placement and the required "
         "rejection of missing/double restrictions are checked structurally.",
    technique="SMT translation validation (z3 NRA) in a two-sided symbolic environment + structural side conditions",
    design="§4 C17", engine="E1")

CHECKS["C23"] = dict(
    level="translation_validation",
    text="Complex mode: do_comparison_check alone and compute_form_data(complex_mode=True) run on comparison/min/max "
         "skeletons (also beneath real/imag/abs/conj nodes); when they accept, z3 must prove that every compared operand (as written by the user, and as "
         "present after the whole pipeline) has imaginary part identically zero for arbitrary complex field data, "
         "and that the output equals the input on real data. Real mode: remove_complex_nodes output equals input on "
         "real data, Imag and complex literals must raise.",
    technique="SMT decision (z3 NRA over re/im pairs with uninterpreted complex functions) of realness of compared operands",
    design="§4 C23", engine="E1")

CHECKS["C15"] = dict(
    level="translation_validation",
    text="group_form_integrals + build_integral_data run on forms whose integrands are distinct symbolic scalars, "
         "over subdomain-id patterns (ints, overlapping tuples, everywhere), metadata patterns (equal, different, "
         "nested, int vs float vs str, small arrays equal in bytes but not in shape / equal in shape but not in values), integral types, coordinate-derivative stacks and both append options; per "
         "(type, single subdomain / otherwise, metadata, derivative stack) z3 proves the output sum equals the sum "
         "of the originals that apply, so merging across different metadata shows up as a wrong sum.",
    technique="SMT (z3, linear real arithmetic over symbolic integrands) validation of integral regrouping",
    design="§4 C15", engine="E1")

CHECKS["C24"] = dict(
    level="translation_validation",
    text="The real Expr.__call__/_eval and every evaluate() method run on symbolic numbers (term + exact shadow) for "
         "terminal values and for the derivative requests made to mapped callables; comparisons record branch "
         "conditions. Per explored path z3 proves (i) every input following the implementation's path takes the same "
         "branches mathematically and (ii) path condition => returned term == denotation of the *input* expression "
         "(derivatives by jet arithmetic, conditionals by the selected branch only); further paths are obtained from "
         "z3 models of negated branch conditions (dynamic symbolic execution). A raise at a point where the value is "
         "defined is a violation. Expressions reaching math.*/cmath.* concretise and are recorded as outside the claim.",
    technique="dynamic symbolic execution of the real evaluate methods (symbolic numbers, z3-generated path inputs) + "
              "SMT (z3 NRA) equality with the denotation per path",
    design="§4 C24", engine="E1")

CHECKS["C28"] = dict(
    level="translation_validation",
    text="Every operation of the base-form algebra (FormSum construction, +, -, scalar *, Action/action, Adjoint/adjoint, "
         "derivative + expand_derivatives, expand_derivatives as identity) is applied by the real code to atoms (Forms, "
         "Matrices, Cofunctions, Coefficients, ZeroBaseForms, identity Arguments/Coarguments; rectangular spaces of "
         "dimension 2 and 3) and to depth-1 composites; operands and result are assembled on a symbolic finite-dimensional "
         "model (symbolic basis values at one quadrature point, symbolic matrix/vector entries, dofs and weights) and z3 "
         "proves result == weighted sum / contraction / transpose / d-by-d-dof of the operands for all symbol values; the "
         "reported argument spaces must follow the contraction rule, reported coefficients must cover the dependence of "
         "the map, operands must not be modified.",
    technique="SMT (z3 NRA) validation of each algebraic operation against tensor semantics on a symbolic finite-dimensional assembly model",
    design="§4 C28", engine="E1")

TABLE_NOTE = ("Trusted base: vlib/tables.py (SMT-LIB encoding of the relation tables) and z3. The tables are produced "
              "on every run by calling the real operators on every element / pair of the stated finite carrier; the "
              "claim is for that carrier.")
CHECKS["C26"] = dict(
    level="model_checking",
    text="Count/dimension tables of every named cell and the '<' / '==' tables of named + tensor-product cells "
         "(total dimension <= 3) are produced by the real methods; z3 proves, over symbolic indices into the tables, "
         "the Euler characteristic, sub-entity dimension/count/type consistency (also of the sub-entities themselves), "
         "facet/ridge/peak arithmetic and the strict-total-order axioms; a model is a concrete cell tuple.",
    technique="SMT (z3, integer tables) check of order and topology axioms over relation tables regenerated from the real code",
    design="§4 C26", engine="E3", note=TABLE_NOTE)

CHECKS["C25"] = dict(
    level="model_checking",
    text="The six comparison operators and element membership are tabulated by the real code on every pair of the "
         "12 predefined spaces plus all directional spaces with orders in {0,1,2,inf} (1 and 2 directions; thorough 3); "
         "z3 proves over symbolic indices: > is the converse of <, <=/>= definitions, irreflexive, asymmetric, "
         "transitive, == an equivalence and a congruence for <, membership == (<=), and agreement of < with the "
         "inclusion diagram of the predefined spaces.",
    technique="SMT (z3) check of partial-order axioms over relation tables regenerated from the real operators",
    design="§4 C25", engine="E3", note=TABLE_NOTE)

XH_NOTE = ("Trusted base: the harness module under units/ (state construction, reference rule), CrossHair 0.0.110 and z3. "
           "The claim is 'Confirmed over all paths' within the pre: bounds of each condition; counterexamples are replayed "
           "concretely in a fresh interpreter before being reported.")
CHECKS["C20"] = dict(
    level="proof",
    text="One dispatch step from every registry state (k types registered before an algorithm class is first used, j "
         "after; k, j <= 2; late types chained or not; both instantiation orders): CrossHair executes the real "
         "MultiFunction / Transformer constructors and dispatch symbolically in the dispatched type index and confirms "
         "over all paths that a fresh instance picks the nearest ancestor's handler (incl. handlers named after late "
         "types) and agrees with an instance built from pristine caches.",
    technique="CrossHair symbolic execution (z3) of the real dispatch code from directly constructed registry states",
    design="§4 C20", engine="E2", note=XH_NOTE)

CHECKS["C18"] = dict(
    level="proof",
    text="The real SumDegreeEstimator handlers (dispatched through MultiFunction.__call__) run under CrossHair on "
         "polynomial skeletons with symbolic element degrees (scalar polynomials with powers and gradients, components "
         "of mixed, nested mixed, symmetric, symmetric-in-mixed and Piola-on-manifold elements, sub/super-degree pairs, "
         "restriction/conj/real/imag/variable/transpose wrappers, unlowered inner/dot/outer/cross/div/curl/nabla_*, "
         "conditional/min/max, quadrilateral cells, meshes with symbolic coordinate degree, hand-built list tensors of "
         "mixed-coefficient components); "
         "CrossHair confirms over all paths that estimate >= the exact generic-data degree computed by an independent "
         "max-plus calculus with its own physical-component -> sub-element map.",
    technique="CrossHair symbolic execution (z3) of the real degree-estimation handlers with symbolic degrees",
    design="§4 C18", engine="E2", note=XH_NOTE)

CHECKS["C19"] = dict(
    level="proof",
    text="CrossHair executes the real unique pre/post traversals, the cutoff variant and map_expr_dag (compress "
         "on/off, MultiFunction handlers with equal-but-distinct results) on DAGs built from a symbolic adjacency list "
         "(every shape with <= 2 internal nodes, four families with 3; unary/binary/cutoff kinds, arbitrary sharing) and "
         "confirms over all paths: each distinct node once, operands before users, map == recursive application. "
         "Dispatch of every registered expression type under ~70 handler-name sets is tabulated from the real "
         "MultiFunction/Transformer tables and compared by z3 with the nearest-ancestor rule. The memoisation of "
         "memoized_handler and of DAGTraverser.__call__ (keyword contexts: different names with equal values, equal "
         "names with different values, subsets, reused instance) is run for real and z3 proves the result equal to "
         "the plain recursive application of the same rules.",
    technique="CrossHair symbolic execution (z3) over DAG shapes + SMT check of dispatch tables and of memoised traversals",
    design="§4 C19", engine="E2", note=XH_NOTE)

CHECKS["C13"] = dict(
    level="proof",
    text="For 14 terminal-like classes CrossHair explores pairs and triples of instances with symbolic payload (counts "
         "across the 9/10 digit boundary, numbers, parts, shapes, dims, mesh ids) and confirms over all paths that == is "
         "reflexive, symmetric, transitive, implies equal hash/repr/shape, holds for equal payloads, and that comparing "
         "changes neither repr nor hash; pairs of expression DAGs from symbolic adjacency lists: == iff structurally "
         "equal, stable under repetition in both orders, both DAGs untouched; hash-colliding index pairs. Pickle and "
         "eval(repr) round trips of a fixed list are concrete side checks.",
    technique="CrossHair symbolic execution (z3) of the real __eq__/__hash__/__repr__ and expr_equals over payload and DAG-shape spaces",
    design="§4 C13", engine="E2", note=XH_NOTE)

CHECKS["C29"] = dict(
    level="model_checking",
    text="cmp_expr and the structural equality of a+b / b+a and a*b / b*a are tabulated by the real code on every pair of "
         "a ~70-expression operand pool (counts and mesh ids on both sides of digit boundaries, fixed/free indexed "
         "tensors, operators, shared vs rebuilt sub-expressions, variables); z3 proves over symbolic indices that cmp is a "
         "total preorder (antisymmetric, transitive for < and ==), that cmp == 0 only for operands equal up to index/"
         "label numbering, and that distinguishable operands give order-independent sums and products; sorted_expr is "
         "permutation independent on distinguishable triples.",
    technique="SMT (z3) check of preorder axioms over comparison tables regenerated from the real cmp_expr",
    design="§4 C29", engine="E3", note=TABLE_NOTE)

CHECKS["C12"] = dict(
    level="proof",
    text="CrossHair confirms, per counted terminal kind and over symbolic selectors of counts on both sides of the 9/10 "
         "and 99/100 digit boundaries and of shifts, that cmp_expr(t(m), t(n)) == cmp_expr(t(m+s), t(n+s)); a z3 "
         "digit-vector model (<= 6 digits, validated against Python) of the text order of reprs proves invariance for "
         "equal digit counts and yields flip witnesses that are replayed on cmp_expr - it is used only while sampled "
         "pairs show that cmp_expr is that text order (not the case since fix 3ba7944: recorded as not applicable); nine forms are "
         "built in fresh interpreters with all counters pre-advanced and under several PYTHONHASHSEEDs and their "
         "signatures must coincide (the hash seed has no symbolic variable: replay matrix only).",
    technique="CrossHair symbolic execution + z3 LIA digit-vector model of repr ordering + signature replay across processes",
    design="§4 C12", engine="E2", note=XH_NOTE)

NOT_APPLICABLE = {
    "C11": "Signature injectivity is injectivity of string renderings (repr/str, numpy array printing, float "
           "formatting) composed with sha512: CrossHair cannot confirm it, z3/cvc5 string theories answer unknown, "
           "numpy printing and hashing are C boundaries; a search that cannot conclude is not a check (DESIGN.md §4 C11).",
    "C27": "A heap frame condition over arbitrary call histories with no numeric/string input for a solver to "
           "quantify; needs effect analysis or runtime monitoring, not this technique (DESIGN.md §4 C27).",
}

PENDING_REASON = "check not built yet in this round (planned, see DESIGN.md §4); not claimed until it exists"


def main():
    props = [json.loads(l)["id"] for l in open(os.path.join(ROOT, "properties.jsonl"))]
    checks = []
    for pid in props:
        c = CHECKS.get(pid)
        if not c:
            continue
        checks.append({
            "property_id": pid,
            "quick_cmd": f"./vf check {pid} --tier quick",
            "thorough_cmd": f"./vf check {pid} --tier thorough",
            "evidence_file": f"/verif/evidence/{pid}.json",
            "replay_cmd_template": "./vf replay {path}",
            "engine": c["engine"],
            "level_claimed": {"category": c["level"], "text": c["text"], "design_ref": c["design"]},
            "level_note": c.get("note", E1_NOTE),
            "technique": c["technique"],
        })
    na = []
    for pid in props:
        if pid in CHECKS:
            continue
        na.append({"property_id": pid, "reason": NOT_APPLICABLE.get(pid, PENDING_REASON)})
    m = {
        "version": 1,
        "setup_cmd": "./setup.sh",
        "hooks": {
            "guard": "UFL_VERIF",
            "enable": "no hooks: checks import /repo's ufl as is (editable install of /repo in /venv, overlaid by /verif/.venv)",
            "baseline_off_cmd": "cd /repo && /venv/bin/python -m pytest -ra -q -p no:cacheprovider --timeout=900 --continue-on-collection-errors",
            "source_commits": [],
            "add_only": True,
        },
        "engines": [
            {"name": "E1", "path": "vlib/", "kind_free_text": "SMT translation validation: real UFL pass on generated skeleton, independent denotation to real-arithmetic terms, z3 decides equality for all values",
             "serves_properties": [p for p, c in CHECKS.items() if c["engine"] == "E1"]},
            {"name": "E2", "path": "units/", "kind_free_text": "CrossHair symbolic execution of real helper functions/classes",
             "serves_properties": [p for p, c in CHECKS.items() if c["engine"] == "E2"]},
            {"name": "E3", "path": "vlib/tables.py", "kind_free_text": "own LIA/relation-table encodings regenerated from the real code, decided by z3",
             "serves_properties": [p for p, c in CHECKS.items() if c["engine"] == "E3"]},
        ],
        "checks": checks,
        "not_applicable": na,
        "notes": "Exit codes of every check: 0 all obligations discharged; 1 replayed violation (VIOLATION line); "
                 "3 an obligation was inconclusive (never reported as a violation). known_findings.json lists "
                 "recorded genuine defects (printed as KNOWN-FINDING) and fixed ones.",
    }
    with open(os.path.join(ROOT, "MANIFEST.json"), "w") as f:
        json.dump(m, f, indent=1)
    print("wrote MANIFEST.json with", len(checks), "checks,", len(na), "not claimed")


if __name__ == "__main__":
    main()
