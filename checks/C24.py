"""C24 — point evaluation computes the mathematical value (E1 with symbolic numbers, DART path exploration).

run:    Expr.__call__ -> _eval -> the real `evaluate` methods of every node type (after the real expand_derivatives),
        executed on vlib.symval.SymVal terminal values (term + exact concrete shadow); mapped callables return jet
        symbols for derivative requests
oracle: per explored path: path condition => returned term == [[e]] (vlib.denote, conditionals as ite); paths are
        explored by negating recorded branch conditions and asking z3 for inputs (<= 12 paths per expression)
cut:    math.* / cmath.* calls concretise through float(): expressions whose evaluation reaches them are recorded as
        outside the claim (status rejected, reason 'concretised'); their derivative rules are C02/C03's subject
"""

from __future__ import annotations

import random
import sys
import time
from fractions import Fraction

import ufl
import ufl.classes as C
from ufl import (as_matrix, as_tensor, as_vector, conditional, div, dot, eq, ge, grad, gt, inner, le, lt, max_value,
                 min_value, ne, outer, tr)

from checks.common import coef, mesh
from vlib import harness, ring, solve, symval
from vlib import terms as tm
from vlib.denote import Denoter, Env, float_literal
from vlib.harness import outcome
from vlib.ring import DenotationError, Frac
from vlib.symval import SymVal

PROP = "C24"


def world():
    dom = mesh("triangle", 2)
    W = dict(dom=dom, f=coef(dom, (), count=1400), g=coef(dom, (), count=1401), h=coef(dom, (), count=1402),
             v=coef(dom, (2,), count=1403), w=coef(dom, (2,), count=1404), A=coef(dom, (2, 2), count=1405),
             B=coef(dom, (2, 2), count=1406), c=ufl.Constant(dom, count=1407))
    return W


def exprs(W):
    f, g, h, v, w, A, B, c = (W[k] for k in "f g h v w A B c".split())
    i, j, k = ufl.Index(count=9601), ufl.Index(count=9602), ufl.Index(count=9603)
    E = {
        "poly": (f * g + 2 * f**2 - g / 3, ()), "division": ((f + g) / (h * h + 1), ()), "neg_abs": (-abs(f * g - h), ()),
        "power_int": (f**3 * g**2, ()), "power_neg": ((f * f + 1) ** -2, ()), "power_half": ((f * f + 1) ** 0.5, ()),
        "cond1": (conditional(lt(f, g), f * f, g + 1), ()), "cond_nested": (conditional(gt(f, 0), conditional(le(g, h), f, g), h * f), ()),
        "cond_eq": (conditional(eq(f, g), h, f - g), ()), "cond_ne_guard": (conditional(ne(f, 0), g / f, 0), ()),
        "cond_guard_eq": (conditional(eq(f, 0), 1, h / f), ()), "cond_and_or": (conditional(ufl.Or(ufl.And(lt(f, g), ge(g, h)), ufl.Not(lt(f, h))), f, g), ()),
        "max_min": (max_value(f, g) * min_value(g, h) + max_value(f * f, 1), ()), "sign": (ufl.sign(f - g) * h, ()),
        "vector_comp": ((f * v + w)[1], ()), "vector_whole": (f * v - 2 * w, (0,)), "dot": (dot(v, w), ()), "inner_t": (inner(A, B), ()),
        "outer": (outer(v, w), (1, 0)), "matvec": (A * v, (1,)), "matmat": ((A * B), (0, 1)), "transpose": (A.T * v, (0,)),
        "trace": (tr(A * B.T), ()), "index_sum": (A[i, j] * v[i] * w[j], ()), "index_sum_repeat": (A[i, i] * B[j, j], ()),
        "component_tensor": (as_tensor(A[i, j] * v[j], (i,)), (1,)), "ct_permuted": (as_tensor(A[i, j] + B[j, i], (j, i)), (0, 1)),
        "ct_reused_index": (as_vector(3 * v[i] + w[i], i)[j] * A[i, j] * v[i], ()),
        "ct_reused_index2": (A[i, j] * v[i] * as_vector(3 * v[i] + w[i], i)[j], ()),
        "ct_reused_index3": (v[i] * (as_vector(3 * v[i] + w[i], i)[j] * A[i, j]), ()),
        "list_tensor": (as_vector([f * g, v[0], w[1] * h]), (2,)), "list_matrix": (as_matrix([[f, v[0]], [w[1], g * h]]) * v, (1,)),
        "slice": (dot(A[0, :], B[:, 1]), ()), "cond_vector": (conditional(lt(f, g), v, 2 * w), (1,)),
        "grad_scalar": (grad(f)[0] * g + grad(g)[1], ()), "grad_product": (grad(f * g)[1], ()), "grad_vector": (grad(v)[1, 0] * f, ()),
        "div": (div(f * v), ()), "hessian": (grad(grad(f * f))[0, 1], ()), "grad_cond": (grad(conditional(lt(f, g), f * f, g))[0], ()),
        "dx": ((f * g).dx(0) + v[i].dx(i), ()), "constant": (c * f + c * c, ()), "variable": (ufl.variable(f * g) ** 2 + f, ()),
        "det_inv": (ufl.det(A) * ufl.inv(A)[0, 1], ()), "cross2": (ufl.perp(v)[0] * w[1], ()),
        "coord": (ufl.SpatialCoordinate(W["dom"])[0] * f + ufl.SpatialCoordinate(W["dom"])[1], ()),
        "grad_coord": (grad(ufl.SpatialCoordinate(W["dom"])[0] * f)[0], ()),
        "cond_of_vector_guard": (conditional(eq(v[0], 0), w, w / v[0]), (0,)),
        "cond_div_guard2": (conditional(lt(abs(f), 1), g, g / f), ()),
        "min_max_div": (min_value(1 / (f * f + 1), g) / max_value(h * h, 1), ()),
        "ct_nested": (as_tensor(as_tensor(A[i, j] * v[k], (i, j, k))[k, j, i] * w[j], (i, k)), (1, 0)),
        # reach math.*: recorded as outside the claim
        "math_sin": (ufl.sin(f) * g, ()), "math_sqrt": (ufl.sqrt(f * f + 1), ()), "math_exp_cond": (conditional(lt(f, g), ufl.exp(f), g), ()),
    }
    return E


class Jets:
    """One SymVal per (terminal, component, derivative multiset); shared by the mapping and the oracle."""

    def __init__(self, shadow_of):
        self.cache = {}
        self.shadow_of = shadow_of

    def get(self, t, comp, derivs):
        if derivs and isinstance(t, C.Constant):
            return SymVal(Frac(tm.const(0)), 0)
        key = (t, tuple(comp), tuple(sorted(derivs)))
        if key not in self.cache:
            name = f"{'w' if isinstance(t, C.Coefficient) else 'c'}{t.count()}{list(comp)}" + "".join(f"_dx{d}" for d in sorted(derivs))
            name = name.replace(" ", "")
            self.cache[key] = SymVal(Frac(tm.var(name)), self.shadow_of(name))
        return self.cache[key]


def nested(shape, f):
    def rec(prefix, sh):
        if not sh:
            return f(prefix)
        return tuple(rec(prefix + (k,), sh[1:]) for k in range(sh[0]))

    return rec((), tuple(shape))


POINT = (0.25, 0.5)
TERMINALS = "f g h v w A B".split()


class Shadows:
    """name -> exact rational; unknown names drawn deterministically from a seeded generator (non-zero, spread)."""

    def __init__(self, fixed, seed):
        self.v = dict(fixed)
        self.rng = random.Random(seed)

    def __call__(self, name):
        if name not in self.v:
            self.v[name] = Fraction(self.rng.choice([-1, 1]) * self.rng.randint(1, 9), self.rng.choice([1, 1, 2, 3]))
        return self.v[name]


def implementation(e, comp, W, sh):
    """The real evaluation on SymVals.  Returns (SymVal | Exception, run)."""
    jets = Jets(sh)
    mapping = {}
    for t in (W[k] for k in TERMINALS):
        def fn(x, derivatives=(), t=t):
            return nested(t.ufl_shape, lambda cc: jets.get(t, cc, derivatives))

        mapping[t] = fn
    mapping[W["c"]] = jets.get(W["c"], (), ())
    run_ = symval.new_run()
    try:
        r = e(POINT, mapping, component=comp)
    except Exception as ex:  # noqa: BLE001
        r = ex
    return r, run_


def oracle(e, comp, W, sh):
    """Path-wise denotation of the *input* expression (derivatives by jet arithmetic, not by UFL's AD):
    returns (value, [(condition term, outcome)], definedness terms)."""
    jets = Jets(sh)
    env = Env()
    for t in [W[k] for k in TERMINALS] + [W["c"]]:
        env.arg_override[t] = (lambda t: lambda cc, derivs, side: jets.get(t, cc, tuple(i for _, i in derivs)).t)(t)
    x = ufl.SpatialCoordinate(W["dom"])
    env.arg_override[x] = lambda cc, derivs, side: Frac(tm.const((Fraction(POINT[cc[0]]) if not derivs else
                                                                  (1 if len(derivs) == 1 and derivs[0][1] == cc[0] else 0))))
    opath = []

    def chooser(c):
        val = concrete([c], sh)
        if val is None:
            raise DenotationError("condition not evaluable at the sample point")
        opath.append((c, bool(val[0])))
        return bool(val[0])

    env.chooser = chooser
    n0 = len(ring.ST.nonzero)
    want = Denoter(env).ev(e, comp, {}, (), None)
    return want, opath, list(ring.ST.nonzero)[n0:]


def concrete(roots, sh):
    allroots, frontier = list(roots), list(roots)
    while frontier:  # radical symbols depend on the variables of their radicands
        nxt = [ring.ST.rad_by_name[n][1] for n, _ in tm.variables(frontier) if n in ring.ST.rad_by_name]
        frontier = [t for t in nxt if all(t is not u for u in allroots)]
        allroots += frontier
    base = {n: sh(n) for n, _ in tm.variables(allroots) if not n.startswith(("rad!", "q!", "const!"))}
    env = solve.complete_env(base, roots)
    if env is None:
        return None
    try:
        return tm.evaluate(roots, env, solve.UF_FLOAT)
    except (ZeroDivisionError, ValueError, KeyError):
        return None


def run(spec):
    name = spec["name"]
    W = world()
    e, comp = exprs(W)[spec["key"]]
    sample = f"{spec['key']}: ({str(e)[:150]})[{comp}] evaluated on symbolic terminal values at x={POINT}"
    todo = [({}, 0)]
    seen, explored, skipped = set(), [], 0
    stage = None
    runs = 0
    while todo and len(explored) < MAX_PATHS and runs < 4 * MAX_PATHS:
        fixed, attempt = todo.pop(0)
        runs += 1
        ring.reset()
        sh = Shadows(fixed, seed=hash((spec["key"], attempt)) & 0xFFFF if False else attempt * 7919 + len(spec["key"]))
        try:
            want, opath, onz = oracle(e, comp, W, sh)
        except DenotationError as ex:
            return outcome(name, "inconclusive", detail=f"denotation: {ex}", sample=sample)
        nzv = concrete(onz, sh) if onz else []
        defined = nzv is not None and all(v != 0 for v in nzv)
        r, run_ = implementation(e, comp, W, sh)
        if run_.tainted:
            return outcome(name, "rejected", detail=f"concretised: {run_.taint_where} (outside the C24 claim)", sample=sample)
        sig = tuple(o for _, o in run_.path)
        pc = [(t if o else tm.not_(t)) for t, o in run_.path]
        point = {k: str(v) for k, v in sorted(sh.v.items())}
        if isinstance(r, Exception):
            if not defined:
                # the mathematical value is undefined at this point as well: resample the unconstrained symbols
                skipped += 1
                if attempt < 6:
                    todo.append((fixed, attempt + 1))
                continue
            return outcome(name, "violated", detail=f"evaluation raised {type(r).__name__}: {str(r)[:120]} where the value is defined",
                           witness={"point": point, "exception": repr(r)[:200], "path": list(sig)}, sample=sample)
        if not defined:
            skipped += 1
            if attempt < 6:
                todo.append((fixed, attempt + 1))
            continue
        if sig in seen:
            continue
        seen.add(sig)
        got = r.t if isinstance(r, SymVal) else Frac(tm.const(float_literal(r) if isinstance(r, float) else Fraction(r)))
        # (i) every input that follows this implementation path takes the same branches mathematically
        for c, o in opath:
            ri = solve.prove_implied(c if o else tm.not_(c), assumptions=pc, timeout=30, label=name)
            if ri.status == "violated":
                return outcome(name, "violated", detail=f"on implementation path {list(sig)} a condition is decided differently "
                               f"from its mathematical value", witness=ri.witness, sample=sample)
            if ri.status != "proved":
                return outcome(name, "inconclusive", detail=f"branch agreement on path {list(sig)}: {ri.detail}", sample=sample)
        # (ii) the returned term equals the mathematical value on this path
        rr = solve.prove_all_zero(solve.flatten_diffs([(want, got)]), assumptions=pc, timeout=60, label=name)
        stage = rr.stage
        if rr.status == "violated":
            return outcome(name, "violated", detail=f"returned value differs from the mathematical value on path {list(sig)}",
                           witness=rr.witness, sample=sample, stage=stage)
        if rr.status != "proved":
            return outcome(name, "inconclusive", detail=f"path {list(sig)}: {rr.detail}", sample=sample)
        explored.append(sig)
        # DART: negate each recorded branch condition under its prefix and ask z3 for inputs
        for k in range(len(pc)):
            pref = sig[:k] + (not sig[k],)
            if any(p[: len(pref)] == pref for p in seen):
                continue
            flip = list(ring.ST.facts) + pc[:k] + [tm.not_(pc[k])]
            v, out = solve.run_z3(tm.to_smt2(flip, comments=[name, "DART: flip branch"]), 30, want_model=True)
            if v == "sat":
                model = solve.parse_model(out)
                new = dict(sh.v)
                for nme, val in model.items():
                    if val is not None and not isinstance(val, bool) and not nme.startswith(("rad!", "q!", "const!")):
                        new[nme] = Fraction(val)
                todo.append((new, 0))
    if not explored:
        return outcome(name, "inconclusive", detail=f"no defined sample point found ({skipped} skipped)", sample=sample)
    return outcome(name, "proved", stage=stage, sample=sample, paths_explored=len(explored), undefined_points_skipped=skipped,
                   path_signatures=[list(map(int, s)) for s in explored][:6])


MAX_PATHS = 12


def specs(tier):
    W = world()
    return [dict(name=k, key=k) for k in exprs(W)]


def main():
    tier = harness.tier_from_argv()
    t0 = time.time()
    results = harness.run_pool("checks.C24", "run", specs(tier))
    paths = sum(r.get("paths_explored", 0) for r in results)
    rc = harness.finish(
        PROP, tier, "translation_validation", results, t0,
        functions=["ufl.exproperators._eval/_call", "evaluate() of Sum, Product, Division, Power, Abs, Conditional and the "
                   "condition types, MinValue/MaxValue, Indexed, IndexSum, ComponentTensor, ListTensor, Grad, Variable, "
                   "tensor algebra nodes, Terminal (mapped values / callables)", "ufl.algorithms.expand_derivatives (as called by _eval)"],
        bounds={"expressions": len(exprs(world())), "paths per expression": "<= 12 (DART: negate recorded branch conditions)",
                "outside": "math.*/cmath.* functions inside evaluate (float() concretisation): recorded as rejected; "
                           "SpatialCoordinate (evaluated through float())"},
        assumptions=["terminal values and derivative requests are independent symbols shared with the oracle",
                     "a raise where the mathematical value is itself undefined (division by zero on the selected branch) "
                     "is not a violation"],
        rule="per expression and explored path: z3 proves path condition => returned term == denotation; further "
             "paths come from z3 models of negated branch conditions",
        trusted_base=["vlib/symval.py", "vlib/denote.py", "z3"],
        extra={"paths_explored": paths},
    )
    sys.exit(rc)


if __name__ == "__main__":
    main()
