"""C24 — point evaluation computes the mathematical value (E1 with symbolic numbers, DART path exploration).

run:    Expr.__call__ -> _eval -> the real `evaluate` methods of every node type (after the real expand_derivatives),
        executed on vlib.symval.SymVal terminal values (term + exact concrete shadow); mapped callables return jet
        symbols for derivative requests
oracle: per explored path: path condition => returned term == [[e]] (vlib.denote, conditionals as ite); paths are
        explored by negating recorded branch conditions and asking z3 for inputs (<= 12 paths per expression)
stub:   ufl.mathfunctions.math is replaced by vlib.symval.MathStub: math.f(symbolic) returns the uninterpreted f the
        denotation uses (assumption: the C function computes f); domain errors are raised as the C function raises them
cut:    Bessel functions (scipy is not installed in the repository's environment: evaluate raises by design) and
        complex values (cmath) are outside the claim; anything else that concretises through float()/complex() is
        recorded as rejected
"""

from __future__ import annotations

import random
import sys
import time
from fractions import Fraction

import ufl
import ufl.classes as C
from ufl import (as_matrix, as_tensor, as_vector, conditional, div, dot, eq, ge, grad, gt, inner, le, lt, max_value,
                 min_value, ne, outer, tr)

from checks.common import coef, mesh
from vlib import harness, lemmas, ring, solve, symval
from vlib import terms as tm
from vlib.denote import Denoter, Env, float_literal
from vlib.harness import outcome
from vlib.ring import DenotationError, Frac
from vlib.symval import SymVal

PROP = "C24"


def world():
    dom = mesh("triangle", 2)
    W = dict(dom=dom, f=coef(dom, (), count=1400), g=coef(dom, (), count=1401), h=coef(dom, (), count=1402),
             v=coef(dom, (2,), count=1403), w=coef(dom, (2,), count=1404), A=coef(dom, (2, 2), count=1405),
             B=coef(dom, (2, 2), count=1406), c=ufl.Constant(dom, count=1407))
    return W


def exprs(W):
    f, g, h, v, w, A, B, c = (W[k] for k in "f g h v w A B c".split())
    i, j, k = ufl.Index(count=9601), ufl.Index(count=9602), ufl.Index(count=9603)
    E = {
        "poly": (f * g + 2 * f**2 - g / 3, ()), "division": ((f + g) / (h * h + 1), ()), "neg_abs": (-abs(f * g - h), ()),
        "power_int": (f**3 * g**2, ()), "power_neg": ((f * f + 1) ** -2, ()), "power_half": ((f * f + 1) ** 0.5, ()),
        "cond1": (conditional(lt(f, g), f * f, g + 1), ()), "cond_nested": (conditional(gt(f, 0), conditional(le(g, h), f, g), h * f), ()),
        "cond_eq": (conditional(eq(f, g), h, f - g), ()), "cond_ne_guard": (conditional(ne(f, 0), g / f, 0), ()),
        "cond_guard_eq": (conditional(eq(f, 0), 1, h / f), ()), "cond_and_or": (conditional(ufl.Or(ufl.And(lt(f, g), ge(g, h)), ufl.Not(lt(f, h))), f, g), ()),
        "max_min": (max_value(f, g) * min_value(g, h) + max_value(f * f, 1), ()), "sign": (ufl.sign(f - g) * h, ()),
        "vector_comp": ((f * v + w)[1], ()), "vector_whole": (f * v - 2 * w, (0,)), "dot": (dot(v, w), ()), "inner_t": (inner(A, B), ()),
        "outer": (outer(v, w), (1, 0)), "matvec": (A * v, (1,)), "matmat": ((A * B), (0, 1)), "transpose": (A.T * v, (0,)),
        "trace": (tr(A * B.T), ()), "index_sum": (A[i, j] * v[i] * w[j], ()), "index_sum_repeat": (A[i, i] * B[j, j], ()),
        "component_tensor": (as_tensor(A[i, j] * v[j], (i,)), (1,)), "ct_permuted": (as_tensor(A[i, j] + B[j, i], (j, i)), (0, 1)),
        "ct_reused_index": (as_vector(3 * v[i] + w[i], i)[j] * A[i, j] * v[i], ()),
        "ct_reused_index2": (A[i, j] * v[i] * as_vector(3 * v[i] + w[i], i)[j], ()),
        "ct_reused_index3": (v[i] * (as_vector(3 * v[i] + w[i], i)[j] * A[i, j]), ()),
        "list_tensor": (as_vector([f * g, v[0], w[1] * h]), (2,)), "list_matrix": (as_matrix([[f, v[0]], [w[1], g * h]]) * v, (1,)),
        "slice": (dot(A[0, :], B[:, 1]), ()), "cond_vector": (conditional(lt(f, g), v, 2 * w), (1,)),
        "grad_scalar": (grad(f)[0] * g + grad(g)[1], ()), "grad_product": (grad(f * g)[1], ()), "grad_vector": (grad(v)[1, 0] * f, ()),
        "div": (div(f * v), ()), "hessian": (grad(grad(f * f))[0, 1], ()), "grad_cond": (grad(conditional(lt(f, g), f * f, g))[0], ()),
        "dx": ((f * g).dx(0) + v[i].dx(i), ()), "constant": (c * f + c * c, ()), "variable": (ufl.variable(f * g) ** 2 + f, ()),
        "det_inv": (ufl.det(A) * ufl.inv(A)[0, 1], ()), "cross2": (ufl.perp(v)[0] * w[1], ()),
        "variable_diff": ((lambda vv: ufl.diff(ufl.sin(vv) * vv, vv) + vv**2)(ufl.variable(ufl.SpatialCoordinate(W["dom"])[0] * g)), ()),
        "variable_vec": ((lambda vv: vv[0] * vv[1] + ufl.diff(dot(vv, vv), vv)[1])(ufl.variable(f * v)), ()),
        "coord": (ufl.SpatialCoordinate(W["dom"])[0] * f + ufl.SpatialCoordinate(W["dom"])[1], ()),
        "grad_coord": (grad(ufl.SpatialCoordinate(W["dom"])[0] * f)[0], ()),
        "cond_of_vector_guard": (conditional(eq(v[0], 0), w, w / v[0]), (0,)),
        "cond_div_guard2": (conditional(lt(abs(f), 1), g, g / f), ()),
        "min_max_div": (min_value(1 / (f * f + 1), g) / max_value(h * h, 1), ()),
        "ct_nested": (as_tensor(as_tensor(A[i, j] * v[k], (i, j, k))[k, j, i] * w[j], (i, k)), (1, 0)),
        # math.* is stubbed (vlib.symval.MathStub): structure around the C calls is what is checked
        "math_sin": (ufl.sin(f) * g, ()), "math_sqrt": (ufl.sqrt(f * f + 1), ()), "math_exp_cond": (conditional(lt(f, g), ufl.exp(f), g), ()),
        "math_all": (ufl.cos(f) + ufl.tan(g) + ufl.cosh(f) * ufl.sinh(g) + ufl.tanh(h) + ufl.atan(f) + ufl.erf(g) + ufl.exp(-h), ()),
        "math_partial": (ufl.ln(f * f + 1) + ufl.acos(f / (1 + abs(f))) + ufl.asin(g / (1 + abs(g))), ()),
        "math_atan2": (ufl.atan2(f, g) - ufl.atan2(g, f), ()), "math_pow_sym": ((f * f + 1) ** g, ()),
        "math_guard_ln": (conditional(gt(f, 0), ufl.ln(f), 0), ()), "math_guard_sqrt": (conditional(ge(f, 0), ufl.sqrt(f), ufl.sqrt(-f)), ()),
        "grad_math": (grad(ufl.sin(f) * ufl.exp(g))[0], ()), "grad_sqrt": (grad(ufl.sqrt(f * f + 1))[1], ()),
        "grad_guard_sqrt": (grad(conditional(gt(f, 0), ufl.sqrt(f), 0))[0], ()),
    }
    return E


class Jets:
    """One SymVal per (terminal, component, derivative multiset); shared by the mapping and the oracle."""

    def __init__(self, shadow_of, suffix=""):
        self.cache = {}
        self.shadow_of = shadow_of
        self.suffix = suffix

    def get(self, t, comp, derivs):
        if derivs and isinstance(t, C.Constant):
            return SymVal(Frac(tm.const(0)), 0)
        key = (t, tuple(comp), tuple(sorted(derivs)))
        if key not in self.cache:
            name = f"{'w' if isinstance(t, C.Coefficient) else 'c'}{t.count()}{list(comp)}" + "".join(f"_dx{d}" for d in sorted(derivs))
            name = name.replace(" ", "") + self.suffix
            self.cache[key] = SymVal(Frac(tm.var(name)), self.shadow_of(name))
        return self.cache[key]


def nested(shape, f):
    def rec(prefix, sh):
        if not sh:
            return f(prefix)
        return tuple(rec(prefix + (k,), sh[1:]) for k in range(sh[0]))

    return rec((), tuple(shape))


POINT = (0.25, 0.5)
TERMINALS = "f g h v w A B".split()


class Shadows:
    """name -> exact rational; unknown names drawn deterministically from a seeded generator (non-zero, spread)."""

    def __init__(self, fixed, seed):
        self.v = dict(fixed)
        self.rng = random.Random(seed)
        self.small = False

    def __call__(self, name):
        if name not in self.v:
            den = self.rng.choice([1, 1, 2, 3]) if self.small is False else self.rng.choice([10, 11, 13])
            self.v[name] = Fraction(self.rng.choice([-1, 1]) * self.rng.randint(1, 9), den)
        return self.v[name]


def install_stub():
    import ufl.mathfunctions as mf

    if not isinstance(mf.math, symval.MathStub):
        mf.math = symval.MathStub()


def terminals_of(e):
    from ufl.algorithms.analysis import extract_type

    cs = sorted(extract_type(e, C.Coefficient), key=lambda t: t.count())
    ks = sorted(extract_type(e, C.Constant), key=lambda t: t.count())
    xs = list(extract_type(e, C.SpatialCoordinate))
    return cs, ks, xs


def implementation(e, comp, W, sh, mapping=None, suffix="", point=None):
    """The real evaluation on SymVals.  Returns (SymVal | Exception, run).  With `mapping` given, that dict object is
    re-used (its terminal entries are overwritten with the new values), as a caller evaluating repeatedly would."""
    jets = Jets(sh, suffix)
    mapping = {} if mapping is None else mapping
    cs, ks, _ = terminals_of(e)
    for t in cs:
        def fn(x, derivatives=(), t=t):
            return nested(t.ufl_shape, lambda cc: jets.get(t, cc, derivatives))

        mapping[t] = fn
    for k in ks:
        mapping[k] = nested(k.ufl_shape, lambda cc: jets.get(k, cc, ()))
    install_stub()
    run_ = symval.new_run()
    run_.mapping = mapping
    try:
        r = e(POINT if point is None else point, mapping, component=comp)
    except Exception as ex:  # noqa: BLE001
        r = ex
    return r, run_


def oracle(e, comp, W, sh, suffix="", point=None):
    """Path-wise denotation of the *input* expression (derivatives by jet arithmetic, not by UFL's AD):
    returns (value, [(condition term, outcome)], definedness terms)."""
    jets = Jets(sh, suffix)
    point = POINT if point is None else point
    env = Env()
    cs, ks, xs = terminals_of(e)
    for t in cs + ks:
        env.arg_override[t] = (lambda t: lambda cc, derivs, side: jets.get(t, cc, tuple(i for _, i in derivs)).t)(t)
    for x in xs:
            env.arg_override[x] = lambda cc, derivs, side: Frac(tm.const((Fraction(point[cc[0]]) if not derivs else
                                                                      (1 if len(derivs) == 1 and derivs[0][1] == cc[0] else 0))))
    opath = []

    def chooser(c):
        val = concrete([c], sh)
        if val is None:
            raise DenotationError("condition not evaluable at the sample point")
        opath.append((c, bool(val[0])))
        return bool(val[0])

    env.chooser = chooser
    n0 = len(ring.ST.nonzero)
    want = Denoter(env).ev(e, comp, {}, (), None)
    return want, opath, list(ring.ST.nonzero)[n0:]


def value_roots(v):
    """Terms whose concrete evaluation must succeed for the value to be defined (function domains)."""
    v = ring.primal(v)
    return [v.n] if isinstance(v, Frac) else []


def concrete(roots, sh):
    env = solve.complete_env({}, roots, fill=sh)
    if env is None:
        return None
    try:
        return tm.evaluate(roots, env, solve.UF_FLOAT)
    except (ZeroDivisionError, ValueError, OverflowError):
        return None
    except KeyError as ex:
        raise DenotationError(f"no concrete implementation of {ex}")


def pool_expr(spec):
    from checks.exprpool import Pool

    P = Pool("triangle", 2, base=1420)
    f = {"s": P.scalars, "v": P.vectors, "t": P.tensors}[spec["kind"]]()[spec["key"]]
    op = spec["op"]
    r = len(f.ufl_shape)
    if op == "value":
        return f, (1,) * r if r < 2 else (0, 1)
    if op == "grad":
        return grad(f), ((1,) * r if r < 2 else (0, 1)) + (0,)
    if op == "div":
        return (div(f), (1,) * (r - 1)) if r >= 1 else (None, None)
    if op == "hess":
        return (grad(grad(f)), (0, 1)) if r == 0 else (None, None)
    raise KeyError(op)


POINT2 = (0.75, -1.5)


def run_reuse(spec):
    """Two evaluations through ONE mapping object whose values (and the point) change in between: the second result
    must be the value for the second data (nothing may be remembered from the first call)."""
    name = spec["name"]
    W = world()
    e, comp = exprs(W)[spec["key"]]
    sample = f"reuse/{spec['key']}: ({str(e)[:150]})[{comp}] evaluated twice through the same mapping object with new values"
    for attempt in range(6):
        ring.reset()
        sh1 = Shadows({}, seed=attempt * 31 + 5)
        r1, run1 = implementation(e, comp, W, sh1)
        if run1.tainted:
            return outcome(name, "rejected", detail=f"concretised: {run1.taint_where}", sample=sample)
        if isinstance(r1, Exception):
            continue
        sh2 = Shadows({}, seed=attempt * 37 + 11)
        sh2.small = attempt % 2 == 1
        r2, run2 = implementation(e, comp, W, sh2, mapping=run1.mapping, suffix="#2", point=POINT2)
        try:
            want, opath, onz = oracle(e, comp, W, sh2, suffix="#2", point=POINT2)
        except DenotationError as ex:
            return outcome(name, "inconclusive", detail=f"denotation: {ex}", sample=sample)
        vals = concrete(onz + list(ring.ST.domain) + value_roots(want), sh2)
        defined = vals is not None and all(v != 0 for v in vals[: len(onz)])
        if isinstance(r2, Exception) or not defined:
            if isinstance(r2, Exception) and defined:
                return outcome(name, "violated", detail=f"second evaluation raised {type(r2).__name__}: {str(r2)[:100]}", sample=sample,
                               witness={"exception": repr(r2)[:200]})
            continue
        pc = [(t if o else tm.not_(t)) for t, o in run2.path]
        got = r2.t if isinstance(r2, SymVal) else Frac(tm.const(float_literal(r2) if isinstance(r2, float) else Fraction(r2)))
        for c, o in opath:
            ri = solve.prove_implied(c if o else tm.not_(c), assumptions=pc, timeout=30, label=name)
            if ri.status == "violated":
                return outcome(name, "violated", detail="second evaluation decides a condition with data of the first", witness=ri.witness, sample=sample)
            if ri.status != "proved":
                return outcome(name, "inconclusive", detail=f"branch agreement: {ri.detail}", sample=sample)
        diffs = solve.flatten_diffs([(want, got)])
        li, _ = lemmas.instances(diffs)
        rr = solve.prove_all_zero(diffs, pc, 60, li, label=name)
        if rr.status == "violated":
            return outcome(name, "violated", detail="the second evaluation through the same mapping object does not return the value "
                           "for the second data", witness=rr.witness, sample=sample, stage=rr.stage)
        if rr.status != "proved":
            return outcome(name, "inconclusive", detail=rr.detail, sample=sample)
        ok, bad = solve.discharge_lemmas(60)
        if bad:
            return outcome(name, "inconclusive", detail="lemma not discharged", sample=sample)
        return outcome(name, "proved", stage=rr.stage, sample=sample)
    return outcome(name, "inconclusive", detail="no defined pair of sample points found", sample=sample)


def run(spec):
    if spec.get("family") == "reuse":
        return run_reuse(spec)
    name = spec["name"]
    W = world()
    if spec.get("family") == "pool":
        e, comp = pool_expr(spec)
        if e is None:
            return outcome(name, "rejected", detail="operator not applicable")
    else:
        e, comp = exprs(W)[spec["key"]]
    sample = f"{spec.get('family', 'c24')}/{spec['key']}: ({str(e)[:150]})[{comp}] evaluated on symbolic terminal values at x={POINT}"
    todo = [({}, 0)]
    seen, explored, skipped = set(), [], 0
    twin_results = []
    stage = None
    runs = 0
    while todo and len(explored) < MAX_PATHS and runs < 4 * MAX_PATHS:
        fixed, attempt = todo.pop(0)
        runs += 1
        ring.reset()
        sh = Shadows(fixed, seed=attempt * 7919 + len(spec["key"]))
        sh.small = attempt % 2 == 1  # alternate: values spread over (-9, 9) / values inside (-1, 1)
        r, run_ = implementation(e, comp, W, sh)
        if run_.tainted:
            return outcome(name, "rejected", detail=f"concretised: {run_.taint_where} (outside the C24 claim)", sample=sample)
        try:
            want, opath, onz = oracle(e, comp, W, sh)
        except DenotationError as ex:
            return outcome(name, "inconclusive", detail=f"denotation: {ex}", sample=sample)
        dom = list(ring.ST.domain)
        vals = concrete(onz + dom + value_roots(want), sh)
        defined = vals is not None and all(v != 0 for v in vals[: len(onz)]) and all(vals[len(onz): len(onz) + len(dom)])
        sig = tuple(o for _, o in run_.path)
        pc = [(t if o else tm.not_(t)) for t, o in run_.path]
        point = {k: str(v) for k, v in sorted(sh.v.items())}
        if isinstance(r, Exception):
            if not defined:
                # the mathematical value is undefined at this point as well: resample the unconstrained symbols
                skipped += 1
                if attempt < 6:
                    todo.append((fixed, attempt + 1))
                continue
            return outcome(name, "violated", detail=f"evaluation raised {type(r).__name__}: {str(r)[:120]} where the value is defined",
                           witness={"point": point, "exception": repr(r)[:200], "path": list(sig)}, sample=sample)
        if not defined:
            skipped += 1
            if attempt < 6:
                todo.append((fixed, attempt + 1))
            continue
        if sig in seen:
            continue
        seen.add(sig)
        got = r.t if isinstance(r, SymVal) else Frac(tm.const(float_literal(r) if isinstance(r, float) else Fraction(r)))
        # (i) every input that follows this implementation path takes the same branches mathematically
        for c, o in opath:
            ri = solve.prove_implied(c if o else tm.not_(c), assumptions=pc, timeout=30, label=name)
            if ri.status == "violated":
                return outcome(name, "violated", detail=f"on implementation path {list(sig)} a condition is decided differently "
                               f"from its mathematical value", witness=ri.witness, sample=sample)
            if ri.status != "proved":
                return outcome(name, "inconclusive", detail=f"branch agreement on path {list(sig)}: {ri.detail}", sample=sample)
        # (ii) the returned term equals the mathematical value on this path
        diffs = solve.flatten_diffs([(want, got)])
        li, lnames = lemmas.instances(diffs)
        rr = solve.prove_all_zero(diffs, pc, 60, li, label=name)
        stage = rr.stage
        if rr.status == "proved":
            ok, bad = solve.discharge_lemmas(60)
            if bad:
                return outcome(name, "inconclusive", detail=f"{bad} normaliser identification lemma(s) not discharged", sample=sample)
        if spec.get("twin") and rr.status == "proved" and not explored:
            rt = solve.prove_all_zero(solve.flatten_diffs([(want + Frac(tm.const(1)), got)]), assumptions=pc, timeout=60, label=name + "#twin")
            twin_results.append(outcome(name + "#twin", rt.status, twin=True, detail="returned value + 1 must differ from the denotation"))
        if rr.status == "violated":
            return outcome(name, "violated", detail=f"returned value differs from the mathematical value on path {list(sig)}",
                           witness=rr.witness, sample=sample, stage=stage)
        if rr.status != "proved":
            return outcome(name, "inconclusive", detail=f"path {list(sig)}: {rr.detail}", sample=sample)
        explored.append(sig)
        # DART: negate each recorded branch condition under its prefix and ask z3 for inputs
        for k in range(len(pc)):
            pref = sig[:k] + (not sig[k],)
            if any(p[: len(pref)] == pref for p in seen):
                continue
            flip = list(ring.ST.facts) + pc[:k] + [tm.not_(pc[k])]
            v, out = solve.run_z3(tm.to_smt2(flip, comments=[name, "DART: flip branch"]), 30, want_model=True)
            if v == "sat":
                model = solve.parse_model(out)
                new = dict(sh.v)
                for nme, val in model.items():
                    if val is not None and not isinstance(val, bool) and not nme.startswith(("rad!", "q!", "const!")):
                        new[nme] = Fraction(val)
                todo.append((new, 0))
    if not explored:
        return outcome(name, "inconclusive", detail=f"no defined sample point found ({skipped} skipped)", sample=sample)
    return [outcome(name, "proved", stage=stage, sample=sample, paths_explored=len(explored), undefined_points_skipped=skipped,
                    path_signatures=[list(map(int, s)) for s in explored][:6])] + twin_results


MAX_PATHS = 12


def specs(tier):
    from checks.exprpool import Pool

    W = world()
    S = [dict(name=k, key=k, twin=(k in ("poly", "cond1", "index_sum", "grad_product", "math_sin"))) for k in exprs(W)]
    for k in ("poly", "variable", "variable_diff", "variable_vec", "cond1", "cond_nested", "ct_reused_index", "index_sum", "grad_product",
              "hessian", "math_sin", "constant", "list_matrix", "max_min", "coord", "grad_cond"):
        S.append(dict(name=f"reuse/{k}", family="reuse", key=k))
    P = Pool("triangle", 2, base=1420)
    for kind, pool in (("s", P.scalars()), ("v", P.vectors()), ("t", P.tensors())):
        for key in pool:
            if key.startswith("bessel"):
                continue
            for op in ("value", "grad", "div") + (("hess",) if tier == "thorough" else ()):
                if op == "div" and kind == "s":
                    continue
                S.append(dict(name=f"pool/{kind}/{key}/{op}", family="pool", kind=kind, key=key, op=op))
    return S


def main():
    tier = harness.tier_from_argv()
    t0 = time.time()
    results = harness.run_pool("checks.C24", "run", specs(tier))
    paths = sum(r.get("paths_explored", 0) for r in results)
    rc = harness.finish(
        PROP, tier, "translation_validation", results, t0,
        functions=["ufl.exproperators._eval/_call", "evaluate() of Sum, Product, Division, Power, Abs, Conditional and the "
                   "condition types, MinValue/MaxValue, Indexed, IndexSum, ComponentTensor, ListTensor, Grad, Variable, "
                   "tensor algebra nodes, Terminal (mapped values / callables)", "ufl.algorithms.expand_derivatives (as called by _eval)"],
        bounds={"expressions": len(exprs(world())), "paths per expression": "<= 12 (DART: negate recorded branch conditions)",
                "outside": "Bessel functions (scipy absent: evaluate raises by design) and complex values (cmath); "
                           "anything concretised through float()/complex() is recorded as rejected; the evaluation point x is concrete (SpatialCoordinate "
                           "evaluates through float()); accuracy of the C math functions"},
        assumptions=["terminal values and derivative requests are independent symbols shared with the oracle",
                     "stub: math.<f> called on a symbolic number returns the uninterpreted <f> (vlib.symval.MathStub)",
                     "a raise where the mathematical value is itself undefined (division by zero on the selected branch) "
                     "is not a violation"],
        rule="per expression and explored path: z3 proves path condition => returned term == denotation; further "
             "paths come from z3 models of negated branch conditions",
        trusted_base=["vlib/symval.py", "vlib/denote.py", "z3"],
        extra={"paths_explored": paths},
    )
    sys.exit(rc)


if __name__ == "__main__":
    main()
