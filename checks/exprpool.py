"""A typed pool of expressions over the language's operators, shared by the
derivative checks (C02, C03, C04)."""

from __future__ import annotations

import ufl
from ufl import (SpatialCoordinate, as_matrix, as_tensor, as_vector, conditional, cos, cosh, cross, det, dot, exp,
                 grad, inner, ln, lt, max_value, min_value, outer, perp, sin, sinh, sqrt, sym, tan, tanh, tr,
                 variable)

from checks.common import coef, mesh


class Pool:
    def __init__(self, cell="triangle", gdim=None, base=600):
        self.dom = mesh(cell, gdim)
        self.g = self.dom.geometric_dimension
        g = self.g
        self.u = coef(self.dom, (), count=base)
        self.h = coef(self.dom, (), count=base + 1)
        self.w = coef(self.dom, (g,), count=base + 2)
        self.z = coef(self.dom, (g,), count=base + 3)
        self.A = coef(self.dom, (g, g), count=base + 4)
        self.x = SpatialCoordinate(self.dom)
        self.c = ufl.Constant(self.dom, count=base + 5)

    def scalars(self):
        u, h, w, z, A, x, c = self.u, self.h, self.w, self.z, self.A, self.x, self.c
        i = ufl.Index()
        d = {
            "u": u, "u*u": u * u, "u*h": u * h, "c*u": c * u, "3*u+h": 3 * u + h, "u-h": u - h,
            "sin": sin(u), "cos": cos(u * h), "exp": exp(u * h), "ln": ln(u), "sqrt": sqrt(u), "sqrt2": sqrt(u * u + h * h),
            "pow3": u**3, "pow2.5": u**2.5, "pow-1": u**-1, "pow-2": (u + h)**-2, "div": u / h, "div2": 1 / (u * u + 1),
            "abs": abs(u), "abs2": abs(u * h - 1), "tan": tan(u), "tanh": tanh(u * h), "cosh": cosh(u), "sinh": sinh(u),
            "acos": ufl.acos(u), "asin": ufl.asin(u), "atan": ufl.atan(u), "atan2": ufl.atan2(u, h), "erf": ufl.erf(u),
            "besselJ0": ufl.bessel_J(0, u), "besselJ1": ufl.bessel_J(1, u), "besselJ2": ufl.bessel_J(2, u * h),
            "besselY0": ufl.bessel_Y(0, u), "besselY1": ufl.bessel_Y(1, u), "besselI0": ufl.bessel_I(0, u),
            "besselI1": ufl.bessel_I(1, u), "besselK0": ufl.bessel_K(0, u), "besselK1": ufl.bessel_K(1, u),
            "cond": conditional(lt(u, h), u * u, h), "cond2": conditional(lt(u * h, 1), sin(u), u * h),
            "max": max_value(u, h), "min": min_value(u * u, h), "max2": max_value(u * h, 1),
            # operands / branches whose derivative is identically zero, on either side (round 4)
            "max_c1": max_value(0.7, u * h), "max_c1c": max_value(c, u), "min_c1": min_value(1, u * h), "min_c2": min_value(u, c),
            "cond_ct": conditional(lt(c, u), 1, u * u), "cond_cf": conditional(lt(u, h), u * h, 2),
            "powg": u**h, "pow_x": (u * u + 1)**(h * u), "pow_const_base": 2**u,
            "x0u": x[0] * u, "xpoly": x[0]**2 * x[min(1, self.g - 1)] + x[min(1, self.g - 1)], "xdot": dot(x, x) * u,
            "dot": dot(w, z), "ww": w[i] * w[i], "tr": tr(A), "innerAA": inner(A, A), "det": det(A),
            "var": variable(u * h) * h, "var2": variable(u)**2 + sin(variable(u)),
            "Aww": dot(w, dot(A, w)), "w0": w[0] * w[self.g - 1], "A01": A[0, self.g - 1] * u,
            "exp_sin": exp(sin(u) * h), "ln_cos": ln(u * u + h) / cos(h * u), "chain3": sin(exp(u * u)),
        }
        return d

    def vectors(self):
        u, h, w, z, A, x = self.u, self.h, self.w, self.z, self.A, self.x
        i, j = ufl.indices(2)
        d = {
            "w": w, "u*w": u * w, "w+z": w + 2 * z, "grad_u": grad(u), "A*w": A * w, "dotAw": dot(A, w),
            "list": as_vector([u * h if k == 0 else w[k] * u for k in range(self.g)]), "x": x, "x*u": x * u,
            "cond": conditional(lt(u, h), w, 2 * z), "ct": as_tensor(A[i, j] * w[j], (i,)),
            "sinw": as_vector([sin(w[k]) for k in range(self.g)]), "w/u": w / u,
        }
        if self.g == 2:
            d["perp"] = perp(w)
        if self.g == 3:
            d["cross"] = cross(w, z)
        return d

    def tensors(self):
        u, w, z, A = self.u, self.w, self.z, self.A
        i, j = ufl.indices(2)
        return {
            "A": A, "outer": outer(w, z), "grad_w": grad(w), "uA": u * A, "sym": sym(A), "AT": A.T,
            "AA": A * A, "ct": as_tensor(A[i, j] * u, (j, i)),
            "list": as_matrix([[A[a, b] * (w[a] if a == b else 1) for b in range(self.g)] for a in range(self.g)]),
        }
