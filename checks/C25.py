"""C25 — Sobolev space comparisons form a consistent partial order (E3 relation tables + z3).

run:    ufl.sobolevspace.{SobolevSpace,DirectionalSobolevSpace}: < > <= >= == and `element in space`,
        called on every pair of the carrier (tables regenerated each run)
sym:    indices a, b, c into the tables
"""

from __future__ import annotations

import itertools
import sys
import time
from math import inf

from ufl.sobolevspace import (H1, H2, H3, L2, DirectionalSobolevSpace, H1Curl, H1Div, HCurl, HCurlDiv, HDiv, HDivDiv,
                              HEin, HInf)

from vlib import harness
from vlib.harness import outcome
from vlib.tables import Tables

PROP = "C25"

PRE = [L2, HDiv, HCurl, H1, H1Div, H1Curl, H2, H3, HInf, HEin, HDivDiv, HCurlDiv]
# ground truth for the predefined spaces (proper inclusions), written from the definitions:
# HInf c H3 c H2 c {H1Div, H1Curl} c H1 c {HDiv, HCurl} c L2;  HEin, HDivDiv, HCurlDiv c L2
UP = {"L2": [], "HDiv": ["L2"], "HCurl": ["L2"], "H1": ["HDiv", "HCurl"], "H1Div": ["H1"], "H1Curl": ["H1"],
      "H2": ["H1Div", "H1Curl"], "H3": ["H2"], "HInf": ["H3"], "HEin": ["L2"], "HDivDiv": ["L2"], "HCurlDiv": ["L2"]}


def ancestors(n):
    out = set()
    todo = list(UP[n])
    while todo:
        x = todo.pop()
        if x not in out:
            out.add(x)
            todo.extend(UP[x])
    return out


class Elem:
    def __init__(self, s):
        self.sobolev_space = s


def carrier(tier, n):
    """Predefined spaces plus the directional spaces with n directions (spaces with different numbers of
    directions live on domains of different dimension and are not meant to be compared)."""
    orders = (0, 1, 2, inf) if tier != "thorough" else (0, 1, 2, 3, inf)
    if isinstance(n, tuple):
        # directional spaces with different numbers of directions side by side (they are incomparable; the predefined
        # isotropic spaces are left out because each of them equals one space of every dimension)
        C, N = [], []
        for m in n:
            for o in itertools.product((0, 1, 2), repeat=m):
                C.append(DirectionalSobolevSpace(o))
                N.append("Dir" + str(tuple(o)))
        return C, N
    C, N = list(PRE), [s.name for s in PRE]
    vals = orders if n < 3 else (0, 1, 2, inf)
    for o in itertools.product(vals, repeat=n):
        C.append(DirectionalSobolevSpace(o))
        N.append("Dir" + str(tuple(o)))
    return C, N


def run(spec):
    C, N = carrier(spec["tier"], spec["n"])
    T = Tables(C, N)
    T.relation("lt", lambda a, b: a < b)
    T.relation("gt", lambda a, b: a > b)
    T.relation("le", lambda a, b: a <= b)
    T.relation("ge", lambda a, b: a >= b)
    T.relation("eq", lambda a, b: a == b)
    T.relation("ne", lambda a, b: a != b)
    T.relation("mem", lambda a, b: Elem(a) in b)

    def fresh(sp):
        # a new, short-lived object equal to sp (membership must not depend on object identity / earlier queries)
        return DirectionalSobolevSpace(tuple(sp._orders)) if isinstance(sp, DirectionalSobolevSpace) else sp

    T.relation("memt", lambda a, b: Elem(fresh(a)) in fresh(b))
    npre = len(PRE) if not isinstance(spec["n"], tuple) else 0
    truth = [f"(and (= i {i}) (= j {j}))" for i, a in enumerate(PRE) for j, b in enumerate(PRE) if b.name in ancestors(a.name)] \
        if npre else []
    extra = f"(define-fun sub ((i Int) (j Int)) Bool (or false {' '.join(truth)}))\n"
    ok2 = "(not (or (lt_err a b) (lt_err b a) (gt_err a b) (gt_err b a) (le_err a b) (ge_err a b) (eq_err a b)))"
    ok3 = "(not (or (lt_err a b) (lt_err b c) (lt_err a c) (eq_err a b) (eq_err b c) (eq_err a c) (lt_err c a) (lt_err c b)))"
    AX = {
        "converse": (2, f"(and {ok2} (not (= (gt a b) (lt b a))))"),
        "le-definition": (2, f"(and {ok2} (not (= (le a b) (or (lt a b) (eq a b)))))"),
        "ge-definition": (2, f"(and {ok2} (not (= (ge a b) (or (lt b a) (eq a b)))))"),
        "ne-definition": (2, f"(and {ok2} (not (ne_err a b)) (not (= (ne a b) (not (eq a b)))))"),
        "irreflexive": (1, "(and (not (lt_err a a)) (lt a a))"),
        "asymmetric": (2, f"(and {ok2} (lt a b) (lt b a))"),
        "transitive": (3, f"(and {ok3} (lt a b) (lt b c) (not (lt a c)))"),
        "eq-reflexive": (1, "(not (eq a a))"),
        "eq-symmetric": (2, f"(and {ok2} (eq a b) (not (eq b a)))"),
        "eq-transitive": (3, f"(and {ok3} (eq a b) (eq b c) (not (eq a c)))"),
        "eq-excludes-lt": (2, f"(and {ok2} (eq a b) (lt a b))"),
        "eq-congruence-left": (3, f"(and {ok3} (eq a b) (lt b c) (not (lt a c)))"),
        "eq-congruence-right": (3, f"(and {ok3} (eq a b) (lt c a) (not (lt c b)))"),
        "membership": (2, f"(and {ok2} (not (mem_err a b)) (not (= (mem a b) (le a b))))"),
        "membership-object-independent": (2, "(and (not (mem_err a b)) (not (memt_err a b)) (not (= (mem a b) (memt a b))))"),
        "predefined-ground-truth": (2, f"(and (< a {npre}) (< b {npre}) (not (= (lt a b) (sub a b))))"),
        "no-errors-among-predefined": (2, f"(and (< a {npre}) (< b {npre}) (or (lt_err a b) (gt_err a b) (le_err a b) (ge_err a b) (eq_err a b) (mem_err a b)))"),
    }
    res = []
    for name, (nv, neg) in AX.items():
        st, wit = T.check(name, nv, neg, extra_decls=extra)
        if st == "proved":
            res.append(outcome(f"n={spec['n']}/{name}", "proved", stage="tables",
                               sample=f"{name}: forall indices over {T.n} spaces"))
        elif st == "sat":
            objs = [T.names[i] for i in wit]
            res.append(outcome(f"n={spec['n']}/{name}", "violated", detail=f"axiom fails for {objs}",
                               witness={"spaces": objs}, sample=name))
        else:
            res.append(outcome(f"n={spec['n']}/{name}", "inconclusive", detail="z3 unknown", sample=name))
    st, wit = T.check("twin", 2, "(not (le a b))", extra_decls=extra)
    res.append(outcome(f"n={spec['n']}/transitive#twin", "violated" if st == "sat" else "proved", twin=True))
    res[0]["table_calls"] = T.calls
    res[0]["carrier"] = T.names
    return res


def main():
    tier = harness.tier_from_argv()
    t0 = time.time()
    ns = (1, 2, (1, 2), (2, 3)) if tier != "thorough" else (1, 2, 3, (1, 2), (2, 3), (1, 2, 3))
    results = harness.run_pool("checks.C25", "run", [dict(name=f"tables{n}", tier=tier, n=n) for n in ns])
    calls = sum(r.get("table_calls", 0) for r in results)
    names = sorted({x for r in results for x in r.get("carrier", [])})
    rc = harness.finish(
        PROP, tier, "model_checking", results, t0,
        functions=["ufl.sobolevspace.SobolevSpace.{__lt__,__gt__,__le__,__ge__,__eq__,__ne__,__contains__}",
                   "ufl.sobolevspace.DirectionalSobolevSpace.{__lt__,__gt__,__eq__,__contains__,__getitem__}"],
        bounds={"carrier": f"{len(names)} spaces: the 12 predefined ones and DirectionalSobolevSpace with orders from "
                           "{0,1,2,inf} in 1 and 2 directions (thorough: {0,1,2,3,inf}, 3 directions with {0,1,inf})",
                "outside": "directional spaces with more directions / other orders"},
        assumptions=["pairs where an operator raises (comparison with HDivDiv/HEin/HCurlDiv is undefined for directional "
                     "spaces) are excluded from the axioms", "ground truth for the predefined spaces written from the "
                     "inclusion diagram in checks/C25.py"],
        rule="relation tables regenerated from the real operators; order axioms, ==-congruence, membership consistency "
             "and the predefined inclusion diagram asserted over symbolic indices; z3 unsat = holds on the carrier",
        trusted_base=["vlib/tables.py", "checks/C25.py inclusion diagram", "z3"],
        extra={"states": len(names), "transitions": calls, "traces_validated_against_impl": calls, "exhaustive": True},
    )
    sys.exit(rc)


if __name__ == "__main__":
    main()
