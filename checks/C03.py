"""C03 — spatial derivatives are lowered to exact derivatives of terminals (E1, jets).

run:    expand_derivatives(D(f)) = apply_algebra_lowering + apply_derivatives
        (GradRuleset, GenericDerivativeRuleset, DerivativeRuleDispatcher) for
        D in grad/div/curl/nabla_grad/nabla_div/.dx, nested to order 2
oracle: truncated-Taylor (dual number tower) arithmetic over the *input*: every
        form argument contributes independent symbols for its value, gradient and
        (symmetric) second derivatives; textbook derivatives of the math functions
side:   in the output, derivatives act on terminals only (checked directly)
"""

from __future__ import annotations

import sys
import time

import ufl
import ufl.classes as C
from ufl import curl, div, grad, nabla_div, nabla_grad

from checks.exprpool import Pool
from vlib import harness, ring, tv
from vlib.denote import Env
from vlib.geometry import GeomEnv
from vlib.harness import outcome

PROP = "C03"


def D1(name, f, g):
    sh = f.ufl_shape
    if name == "grad":
        return grad(f)
    if name == "nabla_grad":
        return nabla_grad(f)
    if name == "div":
        return div(f) if len(sh) >= 1 else None
    if name == "nabla_div":
        return nabla_div(f) if len(sh) >= 1 else None
    if name == "curl":
        if sh == (3,) or sh == (2,) or (sh == () and g == 2):
            return curl(f)
        return None
    if name == "dx01":
        return f.dx(0, 1) if g >= 2 else None
    if name == "dxi":
        i = ufl.Index()
        return f.dx(i) * f.dx(i) if sh == () else None
    if name.startswith("dx"):
        k = int(name[2:])
        return f.dx(k) if k < g else None
    raise KeyError(name)


SECOND = {
    "grad.grad": lambda f, g: grad(grad(f)),
    "div.grad": lambda f, g: div(grad(f)),
    "grad.div": lambda f, g: grad(div(f)) if len(f.ufl_shape) >= 1 else None,
    "curl.curl": lambda f, g: curl(curl(f)) if f.ufl_shape in ((3,),) or (f.ufl_shape == () and g == 2) else None,
    "curl.grad": lambda f, g: curl(grad(f)) if f.ufl_shape == () else None,
    "div.curl": lambda f, g: div(curl(f)) if f.ufl_shape == (3,) else None,
    "nabla_div.nabla_grad": lambda f, g: nabla_div(nabla_grad(f)),
    "dx.dx": lambda f, g: f.dx(0).dx(g - 1),
    "div.div": lambda f, g: div(div(f)) if len(f.ufl_shape) == 2 else None,
}


def geometric_seeds(P):
    dom = P.dom
    X = C.CellCoordinate(dom)
    K = C.JacobianInverse(dom)
    J = C.Jacobian(dom)
    dJ = C.JacobianDeterminant(dom)
    x, u, w = P.x, P.u, P.w
    return {
        "grad_x": grad(x), "div_x": div(x), "grad_xx": grad(ufl.dot(x, x)), "gradgrad_xx": grad(grad(ufl.dot(x, x))),
        "grad_X": grad(X), "grad_X0u": grad(X[0] * u), "grad_K": grad(K[0, 0] * u), "grad_Ju": grad(J[0, 0] * u * dJ),
        "grad_Xpoly": grad(X[0] * X[0] * u), "div_Kw": div(K[0, 0] * w), "gradgrad_X": grad(grad(X[0] * X[P.dom.topological_dimension - 1])),
    }


def extra_seeds(spec):
    """Families outside the single-mesh pool: fields on elements with sub-degree 0 < super-degree (they are NOT piecewise
    constant), and one expression over two meshes of different geometric dimension."""
    from checks.common import coef, mesh
    from vlib import elements as el_

    key = spec["key"]
    if spec["family"] == "subdeg":
        dom = mesh(spec["cell"], spec["gdim"])
        c, g = dom.ufl_cell(), dom.geometric_dimension
        ue = ufl.Coefficient(ufl.FunctionSpace(dom, el_.Enriched(c, 1)), count=650)
        we = ufl.Coefficient(ufl.FunctionSpace(dom, el_.Enriched(c, 1, (g,))), count=651)
        ve = ufl.Argument(ufl.FunctionSpace(dom, el_.Enriched(c, 1)), 0)
        u = coef(dom, (), count=652)
        x = ufl.SpatialCoordinate(dom)
        # key -> (derivative-free operand F, constructor applied to F, requested value by definition: a function
        #         (den, comp) -> value written with derivatives of F's components only)
        D = lambda den, F, comp, *dirs: den.pure_derivative(F, comp, tuple(("x", i) for i in dirs), (), None)  # noqa: E731

        def curl_def(den, F, comp):
            if g == 2:
                return D(den, F, (1,), 0) - D(den, F, (0,), 1)
            (k,) = comp
            a_, b_ = (k + 1) % 3, (k + 2) % 3
            return D(den, F, (b_,), a_) - D(den, F, (a_,), b_)

        def sum_(vals):
            r = vals[0]
            for v in vals[1:]:
                r = r + v
            return r

        E = {"grad_u": (ue, grad, lambda den, comp: D(den, ue, (), comp[0])),
             "dx_u": (ue, lambda F: F.dx(0), lambda den, comp: D(den, ue, (), 0)),
             "div_w": (we, div, lambda den, comp: sum_([D(den, we, (i,), i) for i in range(g)])),
             "grad_w": (we, grad, lambda den, comp: D(den, we, (comp[0],), comp[1])),
             "curl_w": (we, curl, lambda den, comp: curl_def(den, we, comp)),
             "grad_uu": (ue * u, grad, lambda den, comp: D(den, ue * u, (), comp[0])),
             "div_xw": (x[0] * we, div, lambda den, comp: sum_([D(den, x[0] * we, (i,), i) for i in range(g)])),
             "grad_sin": (ufl.sin(ue), grad, lambda den, comp: D(den, ufl.sin(ue), (), comp[0])),
             "nabla_grad_w": (we, nabla_grad, lambda den, comp: D(den, we, (comp[1],), comp[0])),
             "grad_arg": (ve * ue, grad, lambda den, comp: D(den, ve * ue, (), comp[0])),
             "gradgrad_u": (ue, lambda F: grad(grad(F)), lambda den, comp: D(den, ue, (), comp[0], comp[1]))}
        return dom, E[key]
    if spec["family"] == "twomesh":
        d2, d3 = mesh("triangle", 2), mesh("triangle", 3)
        x2, x3 = ufl.SpatialCoordinate(d2), ufl.SpatialCoordinate(d3)
        u2, u3 = coef(d2, (), count=653), coef(d3, (), count=654)
        w3 = coef(d3, (3,), count=655)
        E = {"divx2_divx3": div(x2) * div(x3), "divx3_divx2": div(x3) * div(x2), "gradx3": grad(x3)[2, 2] * grad(x2)[1, 1],
             "div_u3x3": div(u3 * x3) * div(u2 * x2), "gradu_both": grad(u2)[1] * grad(u3)[2] + grad(u3)[0] * grad(u2)[0],
             "div_w3_gradu2": div(w3) * grad(u2 * u2)[0], "const_grad": grad(ufl.Constant(d2) * u2)[1] * grad(ufl.Constant(d3) * u3)[2]}
        return d2, E[key]
    raise KeyError(spec["family"])


def run_subdeg(spec):
    """The derivative *constructors* have shortcuts of their own (derivative of a piecewise constant is Zero): the
    requested derivative is written here from the operand's jets, not from the object the constructor returned."""
    import itertools

    from ufl.algorithms import expand_derivatives
    from vlib import solve
    from vlib.denote import Denoter

    name = spec["name"]
    dom, (F, make, want_of) = extra_seeds(spec)
    sample = f"{spec['key']} of a field on an element with sub-degree 0 < super-degree 1: {str(F)[:100]}"
    try:
        built = make(F)
        out = expand_derivatives(built)
    except Exception as ex:  # noqa: BLE001
        return outcome(name, "violated", detail=f"building / expanding the derivative raised {type(ex).__name__}: {str(ex)[:120]}",
                       sample=sample, witness={"exception": repr(ex)[:200]})
    sample += f"  ==>  {str(out)[:200]}"
    den = Denoter(Env())
    try:
        pairs = [(want_of(den, comp), den.ev(out, comp, {}, (), None)) for comp in itertools.product(*[range(n) for n in out.ufl_shape])]
        diffs = solve.flatten_diffs(pairs)
    except Exception as ex:  # noqa: BLE001
        return outcome(name, "inconclusive", detail=f"denotation: {type(ex).__name__}: {ex}", sample=sample)
    from vlib import lemmas

    li, _ = lemmas.instances(diffs)
    r = solve.prove_all_zero(diffs, (), 60, li, label=name)
    ok, bad = solve.discharge_lemmas(60)
    st = r.status if not (r.status == "proved" and bad) else "inconclusive"
    if st == "proved":
        badd = only_terminal_derivatives(out)
        if badd:
            return outcome(name, "violated", detail=badd, sample=sample, witness={"structural": badd})
    return outcome(name, st, stage=r.stage, detail=r.detail or ("derivative differs from the derivative of the operand" if st == "violated" else ""),
                   witness=r.witness, sample=sample)


def only_terminal_derivatives(e):
    from ufl.corealg.traversal import unique_pre_traversal

    for n in unique_pre_traversal(e):
        if isinstance(n, (C.Div, C.Curl, C.NablaGrad, C.NablaDiv, C.CoefficientDerivative, C.VariableDerivative)):
            return f"{type(n).__name__} left in the output"
        if isinstance(n, (C.Grad, C.ReferenceGrad)):
            o = n.ufl_operands[0]
            while isinstance(o, (C.Grad, C.ReferenceGrad)):
                o = o.ufl_operands[0]
            if not isinstance(o, (C.Terminal, C.ReferenceValue)):
                return f"derivative of non-terminal {type(o).__name__}"
    return None


def build(spec):
    P = Pool(spec["cell"], spec["gdim"])
    g = P.g
    if spec["family"] == "geom":
        return P, geometric_seeds(P)[spec["key"]]
    pool = {"s": P.scalars, "v": P.vectors, "t": P.tensors}[spec["kind"]]()
    f = pool[spec["key"]]
    if spec["order"] == 1:
        return P, D1(spec["op"], f, g)
    return P, SECOND[spec["op"]](f, g)


def run(spec):
    from ufl.algorithms import expand_derivatives

    name = spec["name"]
    if spec["family"] == "subdeg":
        return run_subdeg(spec)
    if spec["family"] in ("twomesh",):
        from ufl.algorithms import expand_derivatives

        dom, e = extra_seeds(spec)
        r0 = repr(e)
        out = expand_derivatives(e)
        res = [tv.compare(name, e, out, Env(), timeout=60, in_repr=r0)]
        if res[0]["status"] == "proved":
            bad = only_terminal_derivatives(out)
            if bad:
                res[0] = outcome(name, "violated", detail=bad, sample=res[0].get("sample"), witness={"structural": bad})
        return res
    P, e = build(spec)
    if e is None:
        return outcome(name, "rejected", detail="operator not applicable to this operand")
    r0 = repr(e)
    out = expand_derivatives(e)
    mk = (lambda: GeomEnv(spec["cell"], spec["gdim"], mode="J")) if spec["family"] == "geom" else (lambda: Env())
    res = [tv.compare(name, e, out, mk(), timeout=spec.get("timeout", 60), in_repr=r0)]
    if res[0]["status"] == "proved":
        bad = only_terminal_derivatives(out)
        if bad:
            res[0] = outcome(name, "violated", detail=bad, sample=res[0].get("sample"), witness={"structural": bad})
    if spec.get("twin"):
        ring.reset()
        mut = out + out if out.ufl_shape else 2 * out
        res.append(tv.compare(name + "#twin", e, mut, mk(), timeout=60, twin=True))
    return res


def specs(tier):
    S = []
    thorough = tier == "thorough"
    P2 = Pool("triangle", 2)
    keys = {"s": list(P2.scalars()), "v": list(P2.vectors()), "t": list(P2.tensors())}
    ops1 = ["grad", "nabla_grad", "div", "nabla_div", "curl", "dx0", "dx1", "dxi"]

    def add(**kw):
        kw["name"] = "/".join(f"{k}={v}" for k, v in kw.items() if k not in ("twin", "timeout")).replace(" ", "")
        S.append(kw)

    cells = [("triangle", 2), ("tetrahedron", 3)] + ([("triangle", 3), ("interval", 1)] if thorough else [])
    for cell, g in cells:
        Pc = Pool(cell, g)
        kk = {"s": list(Pc.scalars()), "v": list(Pc.vectors()), "t": list(Pc.tensors())}
        for kind in ("s", "v", "t"):
            for key in kk[kind]:
                for op in ops1:
                    if g == 3 and not thorough and kind == "s" and op in ("nabla_grad", "dx1") and key not in ("u*u", "sin"):
                        continue
                    if cell == "interval" and op in ("curl", "dx1"):
                        continue
                    add(family="pool", cell=cell, gdim=g, kind=kind, key=key, op=op, order=1,
                        twin=(key in ("u*u", "A*w", "outer") and op == "grad" and g == 2))
        sec_keys = {"s": ["u", "u*u", "u*h", "sin", "exp", "sqrt", "pow3", "div", "tan", "cond", "xpoly", "dot", "abs",
                          "powg", "atan2", "besselJ1", "erf", "var", "ln_cos", "max", "tanh"],
                    "v": ["w", "u*w", "grad_u", "A*w", "list", "x*u", "ct"] + (["cross"] if g == 3 else ["perp"]),
                    "t": ["A", "outer", "uA", "grad_w"]}
        for kind in ("s", "v", "t"):
            for key in sec_keys[kind]:
                for op in SECOND:
                    if cell == "interval":
                        continue
                    if not thorough and g == 3 and (kind != "s" or key not in ("u*u", "sin", "u*h", "div", "dot")) \
                            and op not in ("curl.curl", "div.curl"):
                        continue
                    add(family="pool", cell=cell, gdim=g, kind=kind, key=key, op=op, order=2, timeout=120,
                        twin=(key == "u*u" and op == "div.grad"))
    for cell, g in (("triangle", 2), ("tetrahedron", 3)):
        for key in ("grad_u", "dx_u", "div_w", "grad_w", "curl_w", "grad_uu", "div_xw", "grad_sin", "nabla_grad_w", "grad_arg", "gradgrad_u"):
            add(family="subdeg", cell=cell, gdim=g, key=key)
    for key in ("divx2_divx3", "divx3_divx2", "gradx3", "div_u3x3", "gradu_both", "div_w3_gradu2", "const_grad"):
        add(family="twomesh", key=key)
    for cell, g in (("triangle", 2), ("tetrahedron", 3), ("triangle", 3)):
        for key in geometric_seeds(Pool(cell, g)):
            add(family="geom", cell=cell, gdim=g, key=key, twin=(key == "grad_X0u"))
    return S


def main():
    tier = harness.tier_from_argv()
    t0 = time.time()
    results = harness.run_pool("checks.C03", "run", specs(tier))
    lem = sorted({l for r in results for l in r.get("lemma_instances", [])})
    rc = harness.finish(
        PROP, tier, "translation_validation", results, t0,
        functions=["ufl.algorithms.apply_derivatives.{apply_derivatives,DerivativeRuleDispatcher,GradRuleset,"
                   "GenericDerivativeRuleset}", "ufl.algorithms.apply_algebra_lowering (div/curl/nabla_* lowering)",
                   "ufl.exproperators._dx, ufl.differentiation.*"],
        bounds={"derivative order": "<= 2", "cells": "triangle, tetrahedron (+ triangle in 3D, interval: thorough)",
                "operand pool": "see checks/exprpool.py (scalars/vectors/tensors over every operator category)",
                "outside": "order > 2; non-affine cells (derivatives of K, J); CellAvg/FacetAvg"},
        assumptions=["fields are smooth: value, gradient and symmetric Hessian are independent symbols",
                     "textbook derivatives of math functions (vlib/ring.py DERIV); ground lemma instances used: "
                     + (", ".join(lem) or "none"),
                     "points where the integrand is smooth (divisors non-zero, radicands positive, abs argument != 0 "
                     "handled by sgn with sgn(0)=0)", "affine cell for the geometric seeds"],
        rule="(operand from the pool) x (derivative operator) at order 1 and selected compositions at order 2; "
             "z3 proves the expanded expression equals the jet-arithmetic derivative for all jet values",
        trusted_base=["vlib/denote.py (dual-number tower)", "vlib/ring.py (DERIV table)", "vlib/lemmas.py", "z3"],
        extra={"lemma_instance_kinds_used": lem},
    )
    sys.exit(rc)


if __name__ == "__main__":
    main()
