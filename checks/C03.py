"""C03 — spatial derivatives are lowered to exact derivatives of terminals (E1, jets).

run:    expand_derivatives(D(f)) = apply_algebra_lowering + apply_derivatives
        (GradRuleset, GenericDerivativeRuleset, DerivativeRuleDispatcher) for
        D in grad/div/curl/nabla_grad/nabla_div/.dx, nested to order 2
oracle: truncated-Taylor (dual number tower) arithmetic over the *input*: every
        form argument contributes independent symbols for its value, gradient and
        (symmetric) second derivatives; textbook derivatives of the math functions
side:   in the output, derivatives act on terminals only (checked directly)
"""

from __future__ import annotations

import sys
import time

import ufl
import ufl.classes as C
from ufl import curl, div, grad, nabla_div, nabla_grad

from checks.exprpool import Pool
from vlib import harness, ring, tv
from vlib.denote import Env
from vlib.geometry import GeomEnv
from vlib.harness import outcome

PROP = "C03"


def D1(name, f, g):
    sh = f.ufl_shape
    if name == "grad":
        return grad(f)
    if name == "nabla_grad":
        return nabla_grad(f)
    if name == "div":
        return div(f) if len(sh) >= 1 else None
    if name == "nabla_div":
        return nabla_div(f) if len(sh) >= 1 else None
    if name == "curl":
        if sh == (3,) or sh == (2,) or (sh == () and g == 2):
            return curl(f)
        return None
    if name == "dx01":
        return f.dx(0, 1) if g >= 2 else None
    if name == "dxi":
        i = ufl.Index()
        return f.dx(i) * f.dx(i) if sh == () else None
    if name.startswith("dx"):
        k = int(name[2:])
        return f.dx(k) if k < g else None
    raise KeyError(name)


SECOND = {
    "grad.grad": lambda f, g: grad(grad(f)),
    "div.grad": lambda f, g: div(grad(f)),
    "grad.div": lambda f, g: grad(div(f)) if len(f.ufl_shape) >= 1 else None,
    "curl.curl": lambda f, g: curl(curl(f)) if f.ufl_shape in ((3,),) or (f.ufl_shape == () and g == 2) else None,
    "curl.grad": lambda f, g: curl(grad(f)) if f.ufl_shape == () else None,
    "div.curl": lambda f, g: div(curl(f)) if f.ufl_shape == (3,) else None,
    "nabla_div.nabla_grad": lambda f, g: nabla_div(nabla_grad(f)),
    "dx.dx": lambda f, g: f.dx(0).dx(g - 1),
    "div.div": lambda f, g: div(div(f)) if len(f.ufl_shape) == 2 else None,
}


def geometric_seeds(P):
    dom = P.dom
    X = C.CellCoordinate(dom)
    K = C.JacobianInverse(dom)
    J = C.Jacobian(dom)
    dJ = C.JacobianDeterminant(dom)
    x, u, w = P.x, P.u, P.w
    return {
        "grad_x": grad(x), "div_x": div(x), "grad_xx": grad(ufl.dot(x, x)), "gradgrad_xx": grad(grad(ufl.dot(x, x))),
        "grad_X": grad(X), "grad_X0u": grad(X[0] * u), "grad_K": grad(K[0, 0] * u), "grad_Ju": grad(J[0, 0] * u * dJ),
        "grad_Xpoly": grad(X[0] * X[0] * u), "div_Kw": div(K[0, 0] * w), "gradgrad_X": grad(grad(X[0] * X[P.dom.topological_dimension - 1])),
    }


def only_terminal_derivatives(e):
    from ufl.corealg.traversal import unique_pre_traversal

    for n in unique_pre_traversal(e):
        if isinstance(n, (C.Div, C.Curl, C.NablaGrad, C.NablaDiv, C.CoefficientDerivative, C.VariableDerivative)):
            return f"{type(n).__name__} left in the output"
        if isinstance(n, (C.Grad, C.ReferenceGrad)):
            o = n.ufl_operands[0]
            while isinstance(o, (C.Grad, C.ReferenceGrad)):
                o = o.ufl_operands[0]
            if not isinstance(o, (C.Terminal, C.ReferenceValue)):
                return f"derivative of non-terminal {type(o).__name__}"
    return None


def build(spec):
    P = Pool(spec["cell"], spec["gdim"])
    g = P.g
    if spec["family"] == "geom":
        return P, geometric_seeds(P)[spec["key"]]
    pool = {"s": P.scalars, "v": P.vectors, "t": P.tensors}[spec["kind"]]()
    f = pool[spec["key"]]
    if spec["order"] == 1:
        return P, D1(spec["op"], f, g)
    return P, SECOND[spec["op"]](f, g)


def run(spec):
    from ufl.algorithms import expand_derivatives

    name = spec["name"]
    P, e = build(spec)
    if e is None:
        return outcome(name, "rejected", detail="operator not applicable to this operand")
    r0 = repr(e)
    out = expand_derivatives(e)
    mk = (lambda: GeomEnv(spec["cell"], spec["gdim"], mode="J")) if spec["family"] == "geom" else (lambda: Env())
    res = [tv.compare(name, e, out, mk(), timeout=spec.get("timeout", 60), in_repr=r0)]
    if res[0]["status"] == "proved":
        bad = only_terminal_derivatives(out)
        if bad:
            res[0] = outcome(name, "violated", detail=bad, sample=res[0].get("sample"), witness={"structural": bad})
    if spec.get("twin"):
        ring.reset()
        mut = out + out if out.ufl_shape else 2 * out
        res.append(tv.compare(name + "#twin", e, mut, mk(), timeout=60, twin=True))
    return res


def specs(tier):
    S = []
    thorough = tier == "thorough"
    P2 = Pool("triangle", 2)
    keys = {"s": list(P2.scalars()), "v": list(P2.vectors()), "t": list(P2.tensors())}
    ops1 = ["grad", "nabla_grad", "div", "nabla_div", "curl", "dx0", "dx1", "dxi"]

    def add(**kw):
        kw["name"] = "/".join(f"{k}={v}" for k, v in kw.items() if k not in ("twin", "timeout")).replace(" ", "")
        S.append(kw)

    cells = [("triangle", 2), ("tetrahedron", 3)] + ([("triangle", 3), ("interval", 1)] if thorough else [])
    for cell, g in cells:
        Pc = Pool(cell, g)
        kk = {"s": list(Pc.scalars()), "v": list(Pc.vectors()), "t": list(Pc.tensors())}
        for kind in ("s", "v", "t"):
            for key in kk[kind]:
                for op in ops1:
                    if g == 3 and not thorough and kind == "s" and op in ("nabla_grad", "dx1") and key not in ("u*u", "sin"):
                        continue
                    if cell == "interval" and op in ("curl", "dx1"):
                        continue
                    add(family="pool", cell=cell, gdim=g, kind=kind, key=key, op=op, order=1,
                        twin=(key in ("u*u", "A*w", "outer") and op == "grad" and g == 2))
        sec_keys = {"s": ["u", "u*u", "u*h", "sin", "exp", "sqrt", "pow3", "div", "tan", "cond", "xpoly", "dot", "abs",
                          "powg", "atan2", "besselJ1", "erf", "var", "ln_cos", "max", "tanh"],
                    "v": ["w", "u*w", "grad_u", "A*w", "list", "x*u", "ct"] + (["cross"] if g == 3 else ["perp"]),
                    "t": ["A", "outer", "uA", "grad_w"]}
        for kind in ("s", "v", "t"):
            for key in sec_keys[kind]:
                for op in SECOND:
                    if cell == "interval":
                        continue
                    if not thorough and g == 3 and (kind != "s" or key not in ("u*u", "sin", "u*h", "div", "dot")) \
                            and op not in ("curl.curl", "div.curl"):
                        continue
                    add(family="pool", cell=cell, gdim=g, kind=kind, key=key, op=op, order=2, timeout=120,
                        twin=(key == "u*u" and op == "div.grad"))
    for cell, g in (("triangle", 2), ("tetrahedron", 3), ("triangle", 3)):
        for key in geometric_seeds(Pool(cell, g)):
            add(family="geom", cell=cell, gdim=g, key=key, twin=(key == "grad_X0u"))
    return S


def main():
    tier = harness.tier_from_argv()
    t0 = time.time()
    results = harness.run_pool("checks.C03", "run", specs(tier))
    lem = sorted({l for r in results for l in r.get("lemma_instances", [])})
    rc = harness.finish(
        PROP, tier, "translation_validation", results, t0,
        functions=["ufl.algorithms.apply_derivatives.{apply_derivatives,DerivativeRuleDispatcher,GradRuleset,"
                   "GenericDerivativeRuleset}", "ufl.algorithms.apply_algebra_lowering (div/curl/nabla_* lowering)",
                   "ufl.exproperators._dx, ufl.differentiation.*"],
        bounds={"derivative order": "<= 2", "cells": "triangle, tetrahedron (+ triangle in 3D, interval: thorough)",
                "operand pool": "see checks/exprpool.py (scalars/vectors/tensors over every operator category)",
                "outside": "order > 2; non-affine cells (derivatives of K, J); CellAvg/FacetAvg"},
        assumptions=["fields are smooth: value, gradient and symmetric Hessian are independent symbols",
                     "textbook derivatives of math functions (vlib/ring.py DERIV); ground lemma instances used: "
                     + (", ".join(lem) or "none"),
                     "points where the integrand is smooth (divisors non-zero, radicands positive, abs argument != 0 "
                     "handled by sgn with sgn(0)=0)", "affine cell for the geometric seeds"],
        rule="(operand from the pool) x (derivative operator) at order 1 and selected compositions at order 2; "
             "z3 proves the expanded expression equals the jet-arithmetic derivative for all jet values",
        trusted_base=["vlib/denote.py (dual-number tower)", "vlib/ring.py (DERIV table)", "vlib/lemmas.py", "z3"],
        extra={"lemma_instance_kinds_used": lem},
    )
    sys.exit(rc)


if __name__ == "__main__":
    main()
