"""C08 — function pullbacks implement each element's declared push-forward (E1).

run:    apply_function_pullbacks (FunctionPullbackApplier + AbstractPullback.apply
        implementations), FunctionSpace.value_shape
oracle: the push-forward by definition (vlib.geometry.GeomEnv.pf_terms): identity;
        K^T r; J r / detJ; r / detJ; K^T R K; J R J^T / detJ^2; K^T R J^T / detJ;
        mixed = concatenation with reference and physical offsets; symmetric =
        symmetry map; physical shape by definition
sym:    reference values, J (K, detJ defined from J)
"""

from __future__ import annotations

import sys
import time

import ufl
from ufl import Coefficient, FunctionSpace, as_ufl, grad

from checks.common import mesh
from vlib import elements as el
from vlib import harness, ring, tv
from vlib.geometry import GeomEnv
from vlib.harness import outcome

PROP = "C08"


def sym_elem(c, subs):
    return el.Symmetric({(0, 0): 0, (0, 1): 1, (1, 0): 1, (1, 1): 2}, subs)


def sym3_elem(c, mk):
    m, k = {}, 0
    for i in range(3):
        for j in range(i, 3):
            m[(i, j)] = k
            m[(j, i)] = k
            k += 1
    return el.Symmetric(m, [mk(c) for _ in range(6)])


ELEMS = {
    "P2": lambda c, g: el.P(c, 2),
    "P1vec": lambda c, g: el.P(c, 1, (g,)),
    "P1ten": lambda c, g: el.P(c, 1, (g, g)),
    "RT": lambda c, g: el.RT(c),
    "N1": lambda c, g: el.N1(c),
    "DGL2": lambda c, g: el.DGL2(c),
    "Regge": lambda c, g: el.Regge(c),
    "HHJ": lambda c, g: el.HHJ(c),
    "GLS": lambda c, g: el.GLS(c),
    # rank-2 reference values mapped on the last axis only
    "RT_rank2": lambda c, g: el.FE("RTt", c, 1, (2, c.topological_dimension), ufl.pullback.contravariant_piola, ufl.sobolevspace.HDiv),
    "N1_rank2": lambda c, g: el.FE("N1t", c, 1, (2, c.topological_dimension), ufl.pullback.covariant_piola, ufl.sobolevspace.HCurl),
    "Regge_rank3": lambda c, g: el.FE("Rt", c, 1, (2, c.topological_dimension, c.topological_dimension),
                                      ufl.pullback.double_covariant_piola, ufl.sobolevspace.HEin),
    "Mixed_P_P": lambda c, g: el.Mixed([el.P(c, 2, (g,)), el.P(c, 1)]),
    "Mixed_RT_P": lambda c, g: el.Mixed([el.RT(c), el.P(c, 1)]),
    "Mixed_P_RT": lambda c, g: el.Mixed([el.P(c, 1), el.RT(c)]),
    "Mixed_N1_RT_DG": lambda c, g: el.Mixed([el.N1(c), el.RT(c), el.DGL2(c)]),
    "Mixed_Regge_P": lambda c, g: el.Mixed([el.Regge(c), el.P(c, 1)]),
    "Mixed_nested": lambda c, g: el.Mixed([el.Mixed([el.RT(c), el.P(c, 1)]), el.N1(c)]),
    "Mixed_nested2": lambda c, g: el.Mixed([el.P(c, 1), el.Mixed([el.N1(c), el.Mixed([el.RT(c), el.DGL2(c)])])]),
    "Sym_P": lambda c, g: sym_elem(c, [el.P(c, 1), el.P(c, 2), el.P(c, 1)]),
    "Sym_mixedpb": lambda c, g: sym_elem(c, [el.P(c, 1), el.DGL2(c), el.P(c, 2)]),
    "Sym_vec": lambda c, g: sym_elem(c, [el.N1(c), el.RT(c), el.N1(c)]),
    "Sym3": lambda c, g: sym3_elem(c, lambda cc: el.P(cc, 1)),
    "Mixed_Sym_P": lambda c, g: el.Mixed([sym_elem(c, [el.P(c, 1), el.DGL2(c), el.P(c, 1)]), el.P(c, 1, (g,))]),
    "Mixed_P_Sym": lambda c, g: el.Mixed([el.RT(c), sym_elem(c, [el.P(c, 2), el.DGL2(c), el.P(c, 1)])]),
}


def run(spec):
    from ufl.algorithms.apply_function_pullbacks import apply_function_pullbacks

    dom = mesh(spec["cell"], spec["gdim"])
    cell = dom.ufl_cell()
    e = ELEMS[spec["elem"]](cell, spec["gdim"])
    V = FunctionSpace(dom, e)
    f = Coefficient(V, count=500)
    name = spec["name"]
    env = GeomEnv(spec["cell"], spec["gdim"], mode="J", reference_fields=True)
    sample = f"{spec['elem']} on {spec['cell']} in R^{spec['gdim']}: value_shape={V.value_shape}"
    # physical shape by definition vs FunctionSpace.value_shape
    try:
        want = env.physical_shape(e)
    except Exception as ex:
        return outcome(name, "inconclusive", detail=f"oracle shape: {ex}", sample=sample)
    if tuple(V.value_shape) != tuple(want):
        return outcome(name, "violated", detail=f"value_shape {V.value_shape}, by definition {want}",
                       sample=sample, witness={"structural": "value_shape"})
    expr = {"value": lambda: f, "scaled": lambda: 2 * f,
            "component": lambda: f[(0,) * len(f.ufl_shape)] if f.ufl_shape else f}[spec.get("use", "value")]()
    r0 = repr(expr)
    out = apply_function_pullbacks(expr)
    res = [tv.compare(name, expr, out, env, timeout=120, in_repr=r0, sample=sample + "  ==>  " + str(out)[:200])]
    if spec.get("twin"):
        ring.reset()
        env2 = GeomEnv(spec["cell"], spec["gdim"], mode="J", reference_fields=True)
        res.append(tv.compare(name + "#twin", expr, out + out, env2, timeout=60, twin=True))
    return res


def specs(tier):
    S = []
    cells = [("triangle", 2), ("triangle", 3), ("tetrahedron", 3), ("interval", 1), ("interval", 2)]
    for cell, g in cells:
        for k in ELEMS:
            if k.startswith(("Sym", "Mixed_Sym", "Mixed_P_Sym")) and (cell != "triangle") and k != "Sym3":
                continue
            if k == "Sym3" and cell != "tetrahedron":
                continue
            if cell == "interval" and k in ("Regge", "HHJ", "GLS", "Regge_rank3", "Mixed_Regge_P"):
                pass
            for use in ("value",) + (("component", "scaled") if tier == "thorough" or k in ("RT", "Mixed_RT_P") else ()):
                S.append(dict(name=f"{k}/{cell}/gdim={g}/{use}", elem=k, cell=cell, gdim=g, use=use,
                              twin=(k in ("RT", "Sym_P", "Mixed_nested") and use == "value")))
    return S


def main():
    tier = harness.tier_from_argv()
    t0 = time.time()
    results = harness.run_pool("checks.C08", "run", specs(tier))
    rc = harness.finish(
        PROP, tier, "translation_validation", results, t0,
        functions=["ufl.algorithms.apply_function_pullbacks.{apply_function_pullbacks,FunctionPullbackApplier}",
                   "ufl.pullback.{IdentityPullback,ContravariantPiola,CovariantPiola,L2Piola,DoubleCovariantPiola,"
                   "DoubleContravariantPiola,CovariantContravariantPiola,MixedPullback,SymmetricPullback}.apply / "
                   ".physical_value_shape", "ufl.functionspace.FunctionSpace.value_shape"],
        bounds={"cells": "interval (gdim 1,2), triangle (gdim 2,3), tetrahedron", "elements": sorted(ELEMS),
                "nesting": "mixed in mixed in mixed; symmetric in mixed", "outside": "MeshSequence domains; custom/physical pullbacks"},
        assumptions=["affine cell; J full column rank; K (pseudo-)inverse, detJ (pseudo-)determinant with orientation",
                     "the push-forward definitions in vlib/geometry.py are the trusted reference"],
        rule="one obligation per (element kind, cell, gdim, use); z3 proves physical value == definition for all "
             "reference values and all J",
        trusted_base=["vlib/geometry.py (pf_terms, physical_shape)", "vlib/denote.py", "z3"],
    )
    sys.exit(rc)


if __name__ == "__main__":
    main()
