"""C29 — commutative constructors are order independent (E3 tables + z3).

run:    ufl.sorting.cmp_expr (and the terminal comparators), Sum/Product/Inner operand sorting, on every pair of
        an operand pool (tables regenerated each run)
axioms: cmp is a total preorder: cmp(a,b) == -cmp(b,a), transitive (both < and ==); cmp(a,b) == 0 only for operands
        that are equal up to index / label numbering; cmp(a,b) != 0 => a+b == b+a, a*b == b*a, inner(a,b) == inner(b,a)
        structurally; sorted_expr is permutation independent on triples
sym:    indices a, b, c into the tables
"""

from __future__ import annotations

import itertools
import sys
import time

import ufl
import ufl.classes as C
from ufl import (Argument, Coefficient, Constant, FacetNormal, FunctionSpace, Mesh, SpatialCoordinate, as_ufl, as_vector, atan2, dot,
                 conditional, exp, grad, inner, lt, sin, triangle, variable)
from ufl.classes import Index, Indexed, Label, MultiIndex, Variable
from ufl.core.multiindex import FixedIndex

from vlib import elements as el
from vlib import harness, solve
from vlib.harness import outcome
from vlib.tables import Tables

PROP = "C29"


def pool(tier):
    M9, M10 = Mesh(el.P(triangle, 1, (2,)), ufl_id=9), Mesh(el.P(triangle, 1, (2,)), ufl_id=10)
    V, W = FunctionSpace(M9, el.P(triangle, 1)), FunctionSpace(M9, el.P(triangle, 2))
    Vv = FunctionSpace(M9, el.P(triangle, 1, (2,)))
    Vt = FunctionSpace(M9, el.P(triangle, 1, (2, 2)))
    f1, f2, f10, f11 = (Coefficient(V, count=c) for c in (1, 2, 10, 11))
    g3 = Coefficient(W, count=3)
    v = Coefficient(Vv, count=4)
    A = Coefficient(Vt, count=5)
    c9, c10, c99, c100 = (Constant(M9, count=c) for c in (9, 10, 99, 100))
    a0, a1 = Argument(V, 0), Argument(V, 1)
    a0p0, a0p1 = Argument(V, 2, 0), Argument(V, 2, 1)  # parts only on their own number (None vs int parts are not comparable)
    x9, x10 = SpatialCoordinate(M9), SpatialCoordinate(M10)
    i, j, k = Index(count=901), Index(count=902), Index(count=910)

    def ix(T, *ii):
        return Indexed(T, MultiIndex(tuple(FixedIndex(q) if isinstance(q, int) else q for q in ii)))

    P = {}
    P["f1"], P["f2"], P["f10"], P["f11"], P["g3"] = f1, f2, f10, f11, g3
    P["c9"], P["c10"], P["c99"], P["c100"] = c9, c10, c99, c100
    P["a0"], P["a1"], P["a0p0"], P["a0p1"] = a0, a1, a0p0, a0p1
    P["two"], P["three"], P["half"], P["ten"] = as_ufl(2), as_ufl(3), as_ufl(0.5), as_ufl(10)
    P["x9_0"], P["x9_1"], P["x10_0"] = x9[0], x9[1], x10[0]
    P["n9_0"] = FacetNormal(M9)[0]
    P["A00"], P["A01"], P["A10"], P["A11"] = ix(A, 0, 0), ix(A, 0, 1), ix(A, 1, 0), ix(A, 1, 1)
    P["Ai0"], P["Ai1"], P["A0i"], P["A1i"] = ix(A, i, 0), ix(A, i, 1), ix(A, 0, i), ix(A, 1, i)
    P["Aj0"], P["Aj1"], P["Aij"], P["Aji"], P["Aik"] = ix(A, j, 0), ix(A, j, 1), ix(A, i, j), ix(A, j, i), ix(A, i, k)
    P["vi"], P["vj"], P["v0"], P["v1"] = ix(v, i), ix(v, j), ix(v, 0), ix(v, 1)
    P["f1+f2"], P["f1*f2"], P["f2*f10"], P["f1*g3"] = f1 + f2, f1 * f2, f2 * f10, f1 * g3
    P["sin_f1"], P["sin_f2"], P["exp_f1"], P["f1^2"], P["f1^3"] = sin(f1), sin(f2), exp(f1), f1**2, f1**3
    P["cond"], P["cond2"] = conditional(lt(f1, f2), f1, f2), conditional(lt(f2, f1), f1, f2)
    P["gradf1_0"], P["gradf1_1"], P["gradf2_0"] = grad(f1)[0], grad(f1)[1], grad(f2)[0]
    P["f1+"], P["f1-"] = f1("+"), f1("-")
    P["2*f1"], P["3*f1"], P["f1/f2"], P["f2/f1"] = 2 * f1, 3 * f1, f1 / f2, f2 / f1
    P["c9*f1"], P["c10*f1"] = c9 * f1, c10 * f1
    P["var1"], P["var2"] = Variable(f1 * f2, Label(count=5)), Variable(f1 * f2, Label(count=6))
    # shared sub-expression object on one side, rebuilt equal copies on the other
    r = sin(f1)
    s_ = sin(f2)
    P["shared_a"] = exp(r) / atan2(r, s_)
    P["shared_b"] = exp(sin(f2)) / atan2(sin(f1), sin(f2))
    P["shared_c"] = exp(sin(f1)) / atan2(sin(f1), sin(f1))
    r2, s2 = sin(f1), sin(f2)
    P["shared_d"] = exp(s2) / atan2(r2, s2)          # the other leaf shared, everything rebuilt
    r3, s3 = sin(f1), sin(f2)
    P["shared_e"] = atan2(r3, s3) * exp(r3) + atan2(s3, r3)
    r4, s4 = sin(f1), sin(f2)
    P["shared_f"] = atan2(r4, s4) * exp(s4) + atan2(s4, r4)
    P["Ai0*vi"], P["Ai1*vi"] = ix(A, i, 0) * ix(v, i), ix(A, i, 1) * ix(v, i)
    # two separately built, equal operator objects as the LAST operand of otherwise different products
    e1_, e2_ = sin(g3), sin(g3)
    P["e1"], P["e2"], P["f1*e1"], P["f2*e2"], P["c9*e1"], P["c10*e2"] = e1_, e2_, f1 * e1_, f2 * e2_, c9 * e1_, c10 * e2_
    # float literals whose digit groups coincide as numbers but not as text (1.5 / 1.05, 0.1 / 0.01)
    P["1.5*f1"], P["1.05*f1"], P["0.1*f1"], P["0.01*f1"] = 1.5 * f1, 1.05 * f1, 0.1 * f1, 0.01 * f1
    P["f1^2.5"], P["f1^2.05"] = f1**2.5, f1**2.05
    P["lit1.5"], P["lit1.05"], P["lit7"], P["lit07"] = as_ufl(1.5), as_ufl(1.05), as_ufl(0.7), as_ufl(0.07)
    # float literals that agree to 15 significant digits (their reprs must still differ)
    P["0.3a*f1"], P["0.3b*f1"] = (0.1 + 0.2) * f1, 0.3 * f1
    P["1+e52*f1"], P["1+e51*f1"] = (1 + 2.0**-52) * f1, (1 + 2.0**-51) * f1
    # operators with a varying number of operands: one operand list a proper prefix of the other
    P["dot_l2"] = dot(as_vector([f1, f2]), as_vector([f1, f2]))
    P["dot_l3"] = dot(as_vector([f1, f2, g3]), as_vector([f1, f2, g3]))
    P["l2_0"], P["l3_0"] = as_vector([f1, f2])[i] * as_vector([f1, f2])[i], as_vector([f1, f2, g3])[j] * as_vector([f1, f2, g3])[j]
    if tier == "thorough":
        for n, (p, q) in enumerate(itertools.combinations(["f1", "g3", "c9", "c10", "x9_0", "A01"], 2)):
            P[f"sum{n}"] = P[p] + P[q]
            P[f"prod{n}"] = P[p] * P[q]
    return P


def rkey(e):
    """Structure with index and label numbers erased."""
    if isinstance(e, MultiIndex):
        return ("mi",) + tuple(("fixed", int(q)) if isinstance(q, FixedIndex) else ("index",) for q in e.indices())
    if isinstance(e, Label):
        return ("label",)
    if hasattr(e, "_value") and e._ufl_is_terminal_:
        # literals by their exact Python value (UFL's own rendering of floats is under test elsewhere)
        return ("lit", type(e).__name__, repr(e._value))
    if e._ufl_is_terminal_:
        return ("t", repr(e))
    return (type(e).__name__,) + tuple(rkey(o) for o in e.ufl_operands)


def run(spec):
    from ufl.sorting import cmp_expr, sorted_expr

    P = pool(spec["tier"])
    names = list(P)
    E = [P[n] for n in names]
    T = Tables(E, names)
    n = T.n
    cmpv, same, sumeq, prodeq, inneq, appl = {}, {}, {}, {}, {}, {}
    calls = 0
    # the whole cmp table first: == (used below) eagerly shares operands between equal expressions and would
    # change the object-sharing structure of the pool that cmp_expr's memo depends on
    for a in range(n):
        for b in range(n):
            cmpv[(a, b)] = cmp_expr(E[a], E[b])
            calls += 1
    for a in range(n):
        for b in range(n):
            x, y = E[a], E[b]
            same[(a, b)] = rkey(x) == rkey(y)
            ok_sum = x.ufl_shape == y.ufl_shape and x.ufl_free_indices == y.ufl_free_indices
            appl[(a, b)] = ok_sum
            try:
                sumeq[(a, b)] = (not ok_sum) or bool((x + y) == (y + x))
                prodeq[(a, b)] = bool((x * y) == (y * x))
            except Exception:
                sumeq[(a, b)] = prodeq[(a, b)] = True
            calls += 3

    # history: evaluate == on every pair (it eagerly shares operand tuples between equal expressions), then
    # tabulate cmp_expr again: the order must not depend on which comparisons happened before
    for a in range(n):
        for b in range(n):
            try:
                bool(E[a] == E[b])
            except Exception:  # noqa: BLE001
                pass
    cmpv2 = {(a, b): cmp_expr(E[a], E[b]) for a in range(n) for b in range(n)}
    calls += 2 * n * n

    def ftable(name, t, boolean):
        if boolean:
            tp = [f"(and (= i {a}) (= j {b}))" for (a, b), v in t.items() if v]
            return f"(define-fun {name} ((i Int) (j Int)) Bool (or false {' '.join(tp)}))"
        body = "0"
        for (a, b), v in t.items():
            if v != 0:
                body = f"(ite (and (= i {a}) (= j {b})) {Tables.lit(v)} {body})"
        return f"(define-fun {name} ((i Int) (j Int)) Int {body})"

    extra = "\n".join([ftable("cmp", cmpv, False), ftable("same", same, True), ftable("sumeq", sumeq, True),
                       ftable("prodeq", prodeq, True), ftable("cmp2", cmpv2, False)])
    AX = {
        "cmp/antisymmetric": (2, "(not (= (cmp a b) (- (cmp b a))))"),
        "cmp/reflexive-zero": (1, "(not (= (cmp a a) 0))"),
        "cmp/transitive-lt": (3, "(and (< (cmp a b) 0) (< (cmp b c) 0) (not (< (cmp a c) 0)))"),
        "cmp/transitive-eq": (3, "(and (= (cmp a b) 0) (= (cmp b c) 0) (not (= (cmp a c) 0)))"),
        "cmp/eq-lt-compatible": (3, "(and (= (cmp a b) 0) (< (cmp b c) 0) (not (< (cmp a c) 0)))"),
        "cmp/zero-only-up-to-numbering": (2, "(and (= (cmp a b) 0) (not (same a b)))"),
        "cmp/unchanged-by-earlier-equality-tests": (2, "(not (= (cmp a b) (cmp2 a b)))"),
        "sum/order-independent": (2, "(and (not (= (cmp a b) 0)) (not (sumeq a b)))"),
        "product/order-independent": (2, "(and (not (= (cmp a b) 0)) (not (prodeq a b)))"),
    }
    res = []
    for name, (nv, neg) in AX.items():
        st, wit = T.check(name, nv, neg, extra_decls=extra, timeout=60 if spec["tier"] != "thorough" else 900)
        if st == "proved":
            res.append(outcome(name, "proved", stage="tables", sample=f"{name}: forall indices over {n} operands"))
        elif st == "sat":
            objs = [names[q] for q in wit]
            res.append(outcome(name, "violated", detail=f"fails for operands {objs}: " + "; ".join(str(E[q])[:40] for q in wit),
                               witness={"operands": objs}, sample=name))
        else:
            res.append(outcome(name, "inconclusive", detail="z3 unknown", sample=name))
    # sorted_expr on triples is permutation independent when all three are pairwise distinguishable
    bad = None
    sub = [q for q in range(n) if E[q].ufl_shape == () and E[q].ufl_free_indices == ()][:22]
    perm_ok = {}
    for a, b, c in itertools.combinations(sub, 3):
        if cmpv[(a, b)] == 0 or cmpv[(b, c)] == 0 or cmpv[(a, c)] == 0:
            continue
        base = [id(q) for q in sorted_expr([E[a], E[b], E[c]])]
        ok = all([id(q) for q in sorted_expr(list(p))] == base for p in itertools.permutations([E[a], E[b], E[c]]))
        perm_ok[(a, b, c)] = ok
        calls += 6
    tp = [f"(and (= a {a}) (= b {b}) (= c {c}))" for (a, b, c), v in perm_ok.items() if not v]
    script = f"(declare-const a Int)(declare-const b Int)(declare-const c Int)\n(assert (or false {' '.join(tp)}))\n(check-sat)\n"
    v, out = solve.run_z3(script, 60, want_model=True)
    if v == "unsat":
        res.append(outcome("sorted_expr/permutation-independent", "proved", stage="tables",
                           sample=f"{len(perm_ok)} distinguishable triples"))
    elif v == "sat":
        env = solve.parse_model(out)
        objs = [names[int(env[q])] for q in "abc"]
        res.append(outcome("sorted_expr/permutation-independent", "violated", detail=f"triple {objs}", witness={"operands": objs}))
    else:
        res.append(outcome("sorted_expr/permutation-independent", "inconclusive", detail="z3 unknown"))
    st, wit = T.check("twin", 2, "(not (< (cmp a b) 0))", extra_decls=extra)
    res.append(outcome("cmp/antisymmetric#twin", "violated" if st == "sat" else "proved", twin=True))
    res[0]["table_calls"] = calls
    res[0]["carrier"] = names
    return res


def main():
    tier = harness.tier_from_argv()
    t0 = time.time()
    results = harness.run_pool("checks.C29", "run", [dict(name="tables", tier=tier, task_timeout=600 if tier != "thorough" else 7200)], workers=1)
    calls = results[0].get("table_calls", 0)
    names = results[0].get("carrier", [])
    rc = harness.finish(
        PROP, tier, "model_checking", results, t0,
        functions=["ufl.sorting.{cmp_expr,_cmp_multi_index,_cmp_coefficient,_cmp_argument,_cmp_label,_cmp_terminal_by_repr,"
                   "sorted_expr}", "ufl.algebra.{Sum,Product}.__new__ operand sorting"],
        bounds={"operand pool": f"{len(names)} expressions: coefficients/constants/arguments/literals/coordinates with counts and "
                                "mesh ids on both sides of digit boundaries, fixed/free indexed tensors, operators, shared vs "
                                "rebuilt sub-expressions, variables with different labels",
                "outside": "operands outside the pool; Inner (its operand order carries the conjugation and is not commutative "
                           "structurally)"},
        assumptions=["'distinguishable without comparing index or label numbers' = different after erasing Index counts and "
                     "Label counts (rkey in checks/C29.py)"],
        rule="cmp / equality tables regenerated from the real code over all pairs (and distinguishable triples for "
             "sorted_expr); preorder axioms and order independence asserted over symbolic indices; z3 unsat = holds on the pool",
        trusted_base=["vlib/tables.py", "checks/C29.rkey", "z3"],
        extra={"states": len(names), "transitions": calls, "traces_validated_against_impl": calls, "exhaustive": True},
    )
    sys.exit(rc)


if __name__ == "__main__":
    main()
