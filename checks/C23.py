"""C23 — complex and real mode node handling is sound (E1, complex pairs).

run:    comparison_checker.do_comparison_check alone and inside compute_form_data(complex_mode=True)
        (so comparisons created later, e.g. by differentiating abs, are seen too);
        remove_complex_nodes (real mode)
oracle: complex mode, accepted => (a) every operand of every ordering comparison / min / max in the
        *output* has imaginary part identically 0 for arbitrary complex field data (arguments, geometry
        and real literals are real), decided by the solver; (b) output == input for real data.
        real mode: output == input for real data; Imag nodes and complex literals must raise.
"""

from __future__ import annotations

import sys
import time

import ufl
import ufl.algorithms.comparison_checker as cc
import ufl.classes as C
from ufl import (Coefficient, FunctionSpace, TestFunction, conditional, conj, derivative, dx, exp, ge, gt, imag, inner,
                 le, ln, lt, max_value, min_value, real, sign, sin, sqrt)

from checks.common import coef, mesh
from vlib import elements as el
from vlib import harness, ring, solve, tv
from vlib.denote import Denoter, Env
from vlib.harness import outcome
from vlib.ring import Cx, DenotationError

PROP = "C23"


class CEnv(Env):
    """complex mode; arguments are real-valued (basis functions), coefficients complex unless real_terminals"""

    def __init__(self, real_data=False):
        super().__init__(complex_mode=True)
        self.real_terminals = real_data

    def symbol(self, t, comp, derivs, side):
        if isinstance(t, C.Argument):
            keep = self.real_terminals
            self.real_terminals = True
            try:
                return super().symbol(t, comp, derivs, side)
            finally:
                self.real_terminals = keep
        return super().symbol(t, comp, derivs, side)


def skeletons(dom):
    f = coef(dom, (), count=1200)
    g = coef(dom, (), count=1201)
    w = coef(dom, (2,), count=1202)
    v = TestFunction(FunctionSpace(dom, el.P(dom.ufl_cell(), 1)))
    x = ufl.SpatialCoordinate(dom)
    E = {
        "abs_lt_real": conditional(lt(abs(f), 1.0), f, g),
        "real_gt": conditional(gt(real(f), real(g)), f, conj(g)),
        "imag_le": conditional(le(imag(f), 0.5), f * g, 0),
        "arg_lt": conditional(lt(v, 0.5), f, g) * v,
        "geom_ge": conditional(ge(x[0], x[1]), f, g),
        "int_power_of_real": conditional(lt(abs(f) ** 2, real(g) ** 3), f, g),
        "real_times_real": conditional(lt(real(f) * imag(g) + abs(f), 2), f, g),
        "max_real": max_value(abs(f), real(g)) * g,
        "min_real": min_value(imag(f), 1.0) * f,
        "nested_cond_real": conditional(lt(conditional(gt(abs(f), 1), abs(f), real(g)), 3), f, g),
        "sign_real": sign(real(f)) * g,
        "abs_derivative": None,  # filled below (needs a form)
        "indexed_real": conditional(lt(abs(w[0]), abs(w[1])), w[0], w[1]),
        # must be rejected
        "complex_lt": conditional(lt(f, 1.0), f, g),
        "complex_product": conditional(lt(f * conj(f), 1.0), f, g),
        "sqrt_of_real": conditional(lt(sqrt(abs(f)), 1.0), f, g),
        "float_power": conditional(lt(abs(f) ** 0.5, 1.0), f, g),
        "max_complex": max_value(f, real(g)),
        "min_complex": min_value(abs(f), g),
        "complex_literal": conditional(lt(abs(f), 3 + 4j), f, g),
        "complex_literal_max": max_value(real(f), 1 + 1j),
        "sum_with_complex": conditional(gt(abs(f) + g, 0), f, g),
        # a possibly complex operand that itself contains a conditional / min / max (their results are not "bool")
        "complex_cond_operand": conditional(lt(conditional(gt(real(f), 0), f, g), 0), f, g),
        "complex_times_max": conditional(lt(f * max_value(real(f), real(g)), 0), f, g),
        "max_of_complex_cond": max_value(conditional(gt(abs(f), 1), f, g), 1.0),
        "min_of_complex_times_min": min_value(g * min_value(real(f), 1.0), 2.0),
        # comparisons / min / max BENEATH a node whose own result is real (round 4): the operands still have to be checked
        "cmp_under_real": real(conditional(lt(f, g), f, g)) * g,
        "max_under_imag": imag(max_value(f, g) * f) + f,
        "cmp_under_abs": abs(conditional(lt(f, 1.0), f, g)),
        "min_under_real_under_conj": conj(real(min_value(f * g, 1.0)) * g),
        "cmp_under_real_ok": real(conditional(lt(abs(f), 1.0), f, g)) * g,
        "min_under_imag_ok": imag(min_value(abs(f), real(g)) * g) + f,
        "cmp_under_abs_ok": abs(conditional(gt(imag(f), real(g)), f, g)),
        # functions that leave the reals on part of the real axis
        "ln_of_real": conditional(lt(ln(real(f)), 0), f, g),
        # (ln(abs(f)) is real-valued, but showing it needs ln's range on [0, inf): uninterpreted here, left out)
        "acos_of_real": conditional(lt(ufl.acos(real(f)), 1), f, g),
        "exp_sin_of_real": conditional(lt(exp(real(f)) + sin(imag(g)), 1), f, g),
    }
    return E


def comparison_operands(e):
    from ufl.corealg.traversal import unique_pre_traversal

    out = []
    for n in unique_pre_traversal(e):
        if isinstance(n, (C.LT, C.GT, C.LE, C.GE, C.MinValue, C.MaxValue)):
            out.extend(n.ufl_operands)
    return out


def imag_free(name, exprs, sample):
    """Each expression has imaginary part identically zero for arbitrary complex data."""
    env = CEnv(real_data=False)
    den = Denoter(env)
    pairs = []
    try:
        for op in exprs:
            for idx in den.index_valuations(op):
                val = Cx.of(ring.primal(den.ev(op, (), idx, (), None)))
                pairs.append((val.im, ring.Frac(0)))
        diffs = solve.flatten_diffs(pairs)
    except DenotationError as ex:
        return outcome(name, "inconclusive", detail=f"denotation: {ex}", sample=sample)
    if not diffs:
        return outcome(name, "proved", stage=0, detail="no comparisons in the output", sample=sample)
    r = solve.prove_all_zero(diffs, timeout=60, label=name)
    ok, bad = solve.discharge_lemmas()
    st = r.status if not (r.status == "proved" and bad) else "inconclusive"
    return outcome(name, st, stage=r.stage, witness=r.witness, sample=sample,
                   detail="accepted although a compared operand can be complex" if st == "violated" else (r.detail or ""))


def run(spec):
    name = spec["name"]
    dom = mesh("triangle", 2)
    fam = spec["family"]
    if fam == "complex":
        e = skeletons(dom)[spec["key"]]
        via = spec["via"]
        if spec["key"] == "abs_derivative":
            f = coef(dom, (), count=1200)
            v = TestFunction(FunctionSpace(dom, f.ufl_element()))
            du = ufl.TrialFunction(FunctionSpace(dom, f.ufl_element()))
            form = derivative(abs(f * f) * f * conj(v) * dx, f, du)
        else:
            v = TestFunction(FunctionSpace(dom, el.P(dom.ufl_cell(), 1)))
            form = (e * conj(v) * dx) if "arg_lt" != spec["key"] else (e * dx)
        sample = f"[{via}] {str(form)[:200]}"
        try:
            if via == "checker":
                outs = [i.integrand() for i in cc.do_comparison_check(form).integrals()]
                ins = [i.integrand() for i in form.integrals()]
            else:
                from ufl.algorithms import compute_form_data

                fd = compute_form_data(form, complex_mode=True)
                outs = [i.integrand() for d in fd.integral_data for i in d.integrals]
                ins = None
        except (Exception, cc.ComplexComparisonError, ufl.algorithms.check_arities.ArityMismatch) as ex:
            return outcome(name, "rejected", detail=f"{type(ex).__name__}: {str(ex)[:80]}", sample=sample)
        res = []
        # operands of the comparisons the user wrote (before any Real wrapping by the checker) ...
        ops_in = [o for i_ in form.integrals() for o in comparison_operands(i_.integrand())]
        res.append(imag_free(name + "/input-operands-real", ops_in, sample))
        if via == "pipeline":
            # ... and of every comparison present after the whole pipeline (created by later passes too)
            ring.reset()
            ops = [o for e_ in outs for o in comparison_operands(e_)]
            res.append(imag_free(name + "/output-operands-real", ops, sample + " ==> " + str(outs[0])[:150]))
        if ins is not None:
            ring.reset()
            res.append(tv.compare(name + "/value-on-real-data", ins[0], outs[0], CEnv(real_data=True), timeout=60))
        return res
    if fam == "realmode":
        from ufl.algorithms.remove_complex_nodes import remove_complex_nodes

        f = coef(dom, (), count=1200)
        g = coef(dom, (), count=1201)
        w = coef(dom, (2,), count=1202)
        E = {
            "conj": conj(f) * g, "real": real(f * g) + f, "conj_real_nested": conj(real(conj(f) * g) * g),
            "inner": inner(w, w) + inner(f, g), "outer": ufl.outer(w, w)[0, 1], "abs": abs(conj(f)) * real(g),
            "cond": conditional(lt(real(f), real(g)), conj(f), g), "math": sin(conj(f)) * exp(real(g)),
            "dot": ufl.dot(conj(w), w), "nothing": f * g + 1,
            "imag": imag(f) * g, "imag_nested": conj(imag(f * g)), "complex_literal": (1 + 2j) * f,
            "complex_literal_real_valued": (2 + 0j) * f,
        }
        e = E[spec["key"]]
        from ufl.algorithms.apply_algebra_lowering import apply_algebra_lowering

        e = apply_algebra_lowering(e)
        sample = f"[real mode] {str(e)[:200]}"
        must_raise = spec["key"] in ("imag", "imag_nested", "complex_literal")
        try:
            out = remove_complex_nodes(e)
        except Exception as ex:
            if must_raise:
                return outcome(name, "proved", stage="raise", detail=f"rejected: {str(ex)[:60]}", sample=sample)
            if spec["key"] == "complex_literal_real_valued":
                return outcome(name, "rejected", detail=f"raised {str(ex)[:60]}", sample=sample)
            return outcome(name, "violated", detail=f"raised {type(ex).__name__}: {str(ex)[:100]}", sample=sample,
                           witness={"exception": repr(ex)[:200]})
        if must_raise:
            return outcome(name, "violated", detail="imaginary part / complex literal accepted in real mode",
                           sample=sample, witness={"structural": "accepted"})
        from ufl.corealg.traversal import unique_pre_traversal

        left = [type(n).__name__ for n in unique_pre_traversal(out) if isinstance(n, (C.Conj, C.Real, C.Imag))]
        if left:
            return outcome(name, "violated", detail=f"complex nodes left: {left}", sample=sample,
                           witness={"structural": "left"})
        res = [tv.compare(name, e, out, CEnv(real_data=True), timeout=60, sample=sample + " ==> " + str(out)[:120])]
        if spec.get("twin"):
            ring.reset()
            res.append(tv.compare(name + "#twin", e, 2 * out, CEnv(real_data=True), timeout=60, twin=True))
        return res
    raise KeyError(fam)


def specs(tier):
    S = []
    dom = mesh("triangle", 2)
    for k in skeletons(dom):
        for via in ("checker", "pipeline"):
            if k == "abs_derivative" and via == "checker":
                continue
            S.append(dict(name=f"complex/{via}/{k}", family="complex", key=k, via=via))
    for k in ("conj", "real", "conj_real_nested", "inner", "outer", "abs", "cond", "math", "dot", "nothing", "imag",
              "imag_nested", "complex_literal", "complex_literal_real_valued"):
        S.append(dict(name=f"realmode/{k}", family="realmode", key=k, twin=(k in ("conj", "inner"))))
    return S


def main():
    tier = harness.tier_from_argv()
    t0 = time.time()
    results = harness.run_pool("checks.C23", "run", specs(tier))
    rc = harness.finish(
        PROP, tier, "translation_validation", results, t0,
        functions=["ufl.algorithms.comparison_checker.{do_comparison_check,CheckComparisons}",
                   "ufl.algorithms.compute_form_data(complex_mode=True) (comparisons introduced by later passes)",
                   "ufl.algorithms.remove_complex_nodes.{remove_complex_nodes,ComplexNodeRemoval}"],
        bounds={"complex-mode skeletons": len(skeletons(mesh('triangle', 2))), "real-mode skeletons": 14,
                "outside": "comparisons inside base form operators"},
        assumptions=["arguments (basis functions), geometric quantities and real literals are real; coefficients are "
                     "arbitrary complex numbers", "uninterpreted complex functions: re/im parts as uninterpreted pairs"],
        rule="complex mode: if the pass accepts, z3 proves im(operand) == 0 for every compared operand of the output "
             "for all complex data, and output == input on real data; real mode: output == input on real data, "
             "Imag/complex literals must raise",
        trusted_base=["checks/C23.CEnv", "vlib/denote.py (complex pairs)", "z3"],
    )
    sys.exit(rc)


if __name__ == "__main__":
    main()
