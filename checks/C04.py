"""C04 — diff() with respect to variables computes partial derivatives (E1, dual numbers).

run:    expand_derivatives(diff(f, v)) (operators.diff, VariableRuleset, dispatcher caches)
oracle: component (c_f, c_v) = epsilon part of [[f]] when the value of the variable `v` at
        component c_v is perturbed by a unit and everything not routed through the label is
        held fixed; shape f.shape + v.shape compared directly
"""

from __future__ import annotations

import itertools
import sys
import time

import ufl
from ufl import (as_vector, cos, diff, dot, exp, grad, inner, ln, outer, sin, sqrt, tr, variable)

from checks.common import coef, mesh
from vlib import harness, ring, solve
from vlib.denote import Denoter, Env
from vlib.harness import outcome
from vlib.ring import DenotationError

PROP = "C04"


def world(spec):
    dom = mesh(spec.get("cell", "triangle"))
    g = dom.geometric_dimension
    u = coef(dom, (), count=700)
    h = coef(dom, (), count=701)
    w = coef(dom, (g,), count=702)
    A = coef(dom, (g, g), count=703)
    return dom, g, u, h, w, A


def cases(spec):
    """Returns (f, [variables to differentiate by, in order])."""
    dom, g, u, h, w, A = world(spec)
    k = spec["case"]
    s = variable(u)                      # scalar variable of a terminal
    s2 = variable(u * h + 1)             # scalar variable of an expression
    t = variable(h * h)                  # a second scalar variable
    vv = variable(w)                     # vector variable
    vv2 = variable(2 * w + as_vector([u] * g))
    VA = variable(A)                     # tensor variable
    VF = variable(ufl.Identity(g) + grad(w))   # the hyperelasticity idiom
    VG = variable(grad(u * w))           # wraps something apply_derivatives rewrites
    n1 = variable(sin(s2))               # nested variable
    table = {
        "s_pow": (s**3 + s * h, [s]), "s_sin": (sin(s) * h, [s]), "s_uses_u_outside": (s * u + u * u, [s]),
        "s2_expr": (s2 * s2 * u + exp(s2), [s2]), "s2_ln": (ln(s2) / (1 + s2 * s2), [s2]),
        "s_not_present": (h * h, [s]), "s_sqrt": (sqrt(s2 * s2 + 1), [s2]),
        "two_vars_a": (s * t * t + sin(s * t), [s]), "two_vars_b": (s * t * t + sin(s * t), [t]),
        "two_vars_ab": (s * t * t + sin(s * t), [s, t]), "two_vars_ba": (s * t * t + sin(s * t), [t, s]),
        "two_vars_aa": (s * t * t + sin(s * t), [s, s]), "two_vars_bb": (s**3 * t**3, [t, t]),
        "nested_outer": (n1 * s2 + n1 * n1, [n1]), "nested_inner": (n1 * s2 + n1 * n1, [s2]),
        "nested_both": (n1 * s2 + n1 * n1, [s2, n1]),
        "v_dot": (dot(vv, vv), [vv]), "v_comp": (vv[0] * vv[g - 1] * h, [vv]), "v_expr": (dot(vv2, w) * vv2[0], [vv2]),
        "v_vector_f": (sin(vv[0]) * vv, [vv]), "v_twice": (dot(vv, vv) ** 2, [vv, vv]),
        "v_and_s": (dot(vv, vv) * s, [vv, s]),
        "A_tr": (tr(VA) ** 2, [VA]), "A_inner": (inner(VA, VA) + ufl.det(VA), [VA]), "A_tensor_f": (VA * VA, [VA]),
        "A_inv": (tr(ufl.inv(VA)), [VA]), "A_twice": (ufl.det(VA), [VA, VA]),
        "F_energy": (tr(VF.T * VF) + ln(ufl.det(VF)), [VF]), "F_energy_twice": (tr(VF.T * VF) * ufl.det(VF), [VF, VF]),
        "G_grad_wrapped": (inner(VG, VG), [VG]), "G_grad_wrapped_twice": (inner(VG, VG) ** 2, [VG, VG]),
        "G_component": (VG[0, 0] * VG[g - 1, 0], [VG]),
        "two_tensor_vars": (inner(VA, VF) * tr(VA), [VA, VF]), "two_tensor_vars_rev": (inner(VA, VF) * tr(VA), [VF, VA]),
        "sum_two_diffs": None,
        "coef_u": (u * u * h + sin(u), [u]), "coef_w": (dot(w, w) * u, [w]), "coef_u_twice": (u**3 * h, [u, u]),
        "coef_in_var": (s * u, [u]),
    }
    if k == "sum_two_diffs":
        f = s * t * t + sin(s * t)
        return f, "sum", (s, t)
    f, vs = table[k]
    return f, "chain", vs


CASES = ["s_pow", "s_sin", "s_uses_u_outside", "s2_expr", "s2_ln", "s_not_present", "s_sqrt", "two_vars_a", "two_vars_b",
         "two_vars_ab", "two_vars_ba", "two_vars_aa", "two_vars_bb", "nested_outer", "nested_inner", "nested_both",
         "v_dot", "v_comp", "v_expr", "v_vector_f", "v_twice", "v_and_s", "A_tr", "A_inner", "A_tensor_f", "A_inv",
         "A_twice", "F_energy", "F_energy_twice", "G_grad_wrapped", "G_grad_wrapped_twice", "G_component",
         "two_tensor_vars", "two_tensor_vars_rev", "sum_two_diffs", "coef_u", "coef_w", "coef_u_twice", "coef_in_var"]


def pert_of(v, comp):
    import ufl.classes as C

    if isinstance(v, C.Variable):
        return ("var", v.ufl_operands[1].count(), tuple(comp))
    return ("coef", v.count(), tuple(comp))


def run(spec):
    from ufl.algorithms import expand_derivatives

    name = spec["name"]
    f, mode, vs = cases(spec)
    r0 = repr(f)
    if mode == "sum":
        a, b = vs
        e = diff(f, a) + diff(f, b)
    else:
        e = f
        for v in vs:
            e = diff(e, v)
    try:
        out = expand_derivatives(e)
    except Exception as ex:
        return outcome(name, "violated", detail=f"expansion raised {type(ex).__name__}: {str(ex)[:200]}",
                       sample=str(e)[:200], witness={"exception": repr(ex)[:200]})
    if repr(f) != r0:
        return outcome(name, "inconclusive", detail="input mutated")
    want_shape = f.ufl_shape if mode == "sum" else f.ufl_shape + tuple(itertools.chain(*[v.ufl_shape for v in vs]))
    sample = f"diff({str(f)[:120]}; {[str(v)[:30] for v in vs]}) ==> {str(out)[:150]}"
    if tuple(out.ufl_shape) != tuple(want_shape):
        return outcome(name, "violated", detail=f"shape {out.ufl_shape}, expected {want_shape}", sample=sample,
                       witness={"structural": "shape"})
    env = Env()
    den = Denoter(env)
    pairs = []
    try:
        rf = len(f.ufl_shape)
        for comp in itertools.product(*[range(s) for s in want_shape]):
            cf = comp[:rf]
            if mode == "sum":
                val = None
                for v in vs:
                    t = den.ev(f, cf, {}, (pert_of(v, ()),), None).b
                    val = t if val is None else val + t
            else:
                rest = comp[rf:]
                ctx = []
                for v in vs:
                    r = len(v.ufl_shape)
                    ctx.append(pert_of(v, rest[:r]))
                    rest = rest[r:]
                # the first diff is the innermost perturbation
                val = den.ev(f, cf, {}, tuple(reversed(ctx)), None)
                for _ in ctx:
                    val = val.b
            pairs.append((val, den.ev(out, comp, {}, (), None)))
        diffs = solve.flatten_diffs(pairs)
    except DenotationError as ex:
        return outcome(name, "inconclusive", detail=f"denotation: {ex}", sample=sample)
    from vlib import lemmas

    li, ln_ = lemmas.instances(diffs)
    r = solve.prove_all_zero(diffs, timeout=60, lemma_instances=li, label=name)
    ok, bad = solve.discharge_lemmas()
    st = r.status if not (r.status == "proved" and bad) else "inconclusive"
    res = [outcome(name, st, stage=r.stage, detail=r.detail or ("values differ" if st == "violated" else ""),
                   witness=r.witness, sample=sample)]
    if spec.get("twin"):
        two = env.const(2)
        r2 = solve.prove_all_zero(solve.flatten_diffs([(a * two, b) for a, b in pairs]), timeout=30)
        res.append(outcome(name + "#twin", r2.status, twin=True))
    return res


def specs(tier):
    S = []
    cells = ["triangle"] + (["tetrahedron"] if tier == "thorough" else [])
    for cell in cells:
        for c in CASES:
            S.append(dict(name=f"{cell}/{c}", cell=cell, case=c, twin=(c in ("s_pow", "v_dot", "A_tr"))))
    return S


def main():
    tier = harness.tier_from_argv()
    t0 = time.time()
    results = harness.run_pool("checks.C04", "run", specs(tier))
    rc = harness.finish(
        PROP, tier, "translation_validation", results, t0,
        functions=["ufl.operators.diff", "ufl.variable.{Variable,Label}",
                   "ufl.algorithms.apply_derivatives.{VariableRuleset,DerivativeRuleDispatcher (VariableDerivative)}"],
        bounds={"cases": len(CASES), "variables": "scalar/vector/tensor, of terminals and of expressions (incl. "
                "expressions that apply_derivatives itself rewrites), nested, two variables of equal shape",
                "order": "<= 2", "cells": "triangle (+tetrahedron thorough)", "outside": "order > 2, free indices in f"},
        assumptions=["partial derivative w.r.t. the *value* of the variable; everything not routed through the label fixed",
                     "smooth points; textbook derivatives of math functions"],
        rule="hand-enumerated (f, variables) cases; z3 proves expanded diff == epsilon part for all field values",
        trusted_base=["vlib/denote.py (n_Variable, perturbation towers)", "vlib/ring.py", "z3"],
    )
    sys.exit(rc)


if __name__ == "__main__":
    main()
