"""C21 — replace substitutes exactly the mapped subexpressions (E1).

run:    ufl.algorithms.replace.replace (Replacer) on expressions and forms
oracle: [[replace(e, m)]] rho == [[e]] rho[k -> [[m(k)]] rho] : the mapped terminal's value and all
        its spatial derivatives are those of the image expression (override in the environment);
        shape-changing mappings must raise; an expression without mapped terminals is returned as is
"""

from __future__ import annotations

import sys
import time

import ufl
from ufl import (as_ufl, as_vector, avg, conditional, div, dot, dx, grad, inner, jump, lt, sin, variable, zero)
from ufl.algorithms import replace

from checks.common import arg, coef, mesh
from checks.exprpool import Pool
from vlib import harness, ring, solve, tv
from vlib.denote import Denoter, Env
from vlib.harness import outcome
from vlib.ring import DenotationError

PROP = "C21"


def extend(P):
    if not hasattr(P, "q3"):
        P.q3 = coef(P.dom, (3,), count=794)
        P.h2 = coef(P.dom, (), count=795)
    return P


def mappings(P):
    extend(P)
    u, h, w, z, A, c = P.u, P.h, P.w, P.z, P.A, P.c
    dom = P.dom
    k = coef(dom, (), count=790)
    v0 = arg(dom, 0, (), 1)
    return {
        "u->h": {u: h}, "u->expr": {u: h * h + 1}, "u->zero": {u: zero()}, "u->0": {u: 0}, "u->0.0": {u: 0.0},
        "u->1": {u: 1}, "u->self_expr": {u: 2 * u}, "swap_u_h": {u: h, h: u}, "u,h->k": {u: k, h: k},
        "w->z": {w: z}, "w->expr": {w: 2 * w + z}, "w->zero": {w: zero(P.g)}, "w->list": {w: as_vector([u] * P.g)},
        "A->AT": {A: A.T}, "A->outer": {A: ufl.outer(w, z)}, "c->2": {c: 2.0}, "c->u": {c: u},
        "u->arg": {u: v0}, "absent": {k: h}, "u,w": {u: h * k, w: z * k}, "u->zero,h->k": {u: zero(), h: k},
        "q->const": {P.q3: ufl.Constant(dom, (3,), count=793)}, "q->zero": {P.q3: zero(3)}, "q->expr": {P.q3: as_vector([u, h, u * h])},
        "h->u": {h: u}, "h->u*u": {h: u * u},
    }


def expressions(P):
    extend(P)
    u, h, w, z, A, c, x = P.u, P.h, P.w, P.z, P.A, P.c, P.x
    s = P.scalars()
    E = {k: s[k] for k in ("u*u", "u*h", "c*u", "sin", "div", "cond", "powg", "dot", "Aww", "innerAA", "var", "var2",
                           "abs", "max", "x0u", "atan2", "pow3")}
    E.update({
        "grad_u": grad(u), "grad_u_dot_w": dot(grad(u), w), "div_w": div(w) * u, "hess": div(grad(u * h)),
        "grad_w": inner(grad(w), A), "restricted": u("+") * h("-") + jump(u), "avg_grad": avg(dot(grad(u), w)),
        "restricted_grad": dot(grad(u)("+"), w("-")), "var_of_u": variable(u * u) * h,
        "var_nested": variable(variable(u) * h) + u, "vector": u * w + z, "tensor": u * A + ufl.outer(w, w),
        "no_u": h * c + dot(z, z), "cond_vec": conditional(lt(u, h), w, z),
        # nabla_grad of a vector whose length differs from the geometric dimension (axis order matters for zero images)
        "nabla_grad_q": ufl.nabla_grad(P.q3) if hasattr(P, "q3") else grad(u), "nabla_grad_q_row": (ufl.nabla_grad(P.q3)[0, :] if hasattr(P, "q3") else grad(u)),
        "nabla_grad_q_dot": (dot(ufl.nabla_grad(P.q3), P.q3) if hasattr(P, "q3") else grad(u)),
        # an unexpanded Gateaux derivative whose mapped terminal's image contains the differentiation variable
        "unexpanded_derivative": ufl.derivative(u * u * h, u, P.h2) if hasattr(P, "h2") else u * h,
    })
    return E


def run(spec):
    name = spec["name"]
    P = Pool("triangle", 2)
    if spec["family"] == "expr":
        e = expressions(P)[spec["e"]]
        m = mappings(P)[spec["m"]]
        return one(name, e, m, spec)
    if spec["family"] == "shape":
        u, w, A = P.u, P.w, P.A
        bad = {"scalar->vector": (u * u, {u: w}), "vector->scalar": (dot(w, w), {w: u}),
               "vector->number": (dot(w, w), {w: 0}), "tensor->vector": (ufl.tr(A), {A: w}),
               "vector->otherdim": (dot(w, w), {w: as_vector([u] * (P.g + 1))})}[spec["e"]]
        try:
            out = replace(*bad)
        except Exception as ex:
            return outcome(name, "proved", detail=f"rejected as required: {type(ex).__name__}", stage="raise",
                           sample=str(bad[0]))
        return outcome(name, "violated", detail=f"shape-changing mapping accepted, result {str(out)[:100]}",
                       sample=str(bad[0]), witness={"structural": "accepted"})
    if spec["family"] == "form":
        u, h, w = P.u, P.h, P.w
        v = arg(P.dom, 0, (), 1)
        F = u * v * dx + inner(grad(u), grad(v)) * h * dx(1) + u("+") * v("-") * ufl.dS
        m = mappings(P)[spec["m"]]
        out = replace(F, m)
        res = []
        # integrals whose integrand became zero may be dropped: compare per (type, subdomain)
        keys = sorted({(a.integral_type(), str(a.subdomain_id())) for a in F.integrals() + out.integrals()})
        for key in keys:
            ins = [a.integrand() for a in F.integrals() if (a.integral_type(), str(a.subdomain_id())) == key]
            outs = [b.integrand() for b in out.integrals() if (b.integral_type(), str(b.subdomain_id())) == key]
            if not ins:
                return outcome(name, "violated", detail=f"integral {key} appeared", witness={"structural": "integral"})
            ring.reset()
            res.extend(one(f"{name}/{key[0]}:{key[1]}", sum(ins[1:], ins[0]), m, spec,
                           out=sum(outs[1:], outs[0]) if outs else as_ufl(0)))
        return res
    if spec["family"] == "sequence":
        # multi-step: replaced copies of an expression with variables combined, then replaced again
        f, g_, h, k = P.u, P.h, coef(P.dom, (), count=791), coef(P.dom, (), count=792)
        v = variable(f**2)
        e1 = v * h
        e2 = replace(e1, {f: g_})
        e3 = e1 + e2
        res = one(name + "/step1", e1, {f: g_}, spec, out=e2)
        ring.reset()
        res.extend(one(name + "/step2", e3, {h: k}, spec))
        ring.reset()
        res.extend(one(name + "/step3", e3, {k: f}, spec))
        return res
    raise KeyError(spec["family"])


def one(name, e, m, spec, out=None):
    r = _one(name, e, m, spec, out)
    return [r] if isinstance(r, dict) else list(r)


def _one(name, e, m, spec, out=None):
    r0 = repr(e)
    if out is None:
        try:
            out = replace(e, m)
        except Exception as ex:
            return outcome(name, "violated", detail=f"replace raised {type(ex).__name__}: {str(ex)[:150]}",
                           sample=str(e)[:150], witness={"exception": repr(ex)[:200]})
    sample = f"replace({str(e)[:120]}, {{{', '.join(str(a) + ': ' + str(b)[:30] for a, b in m.items())}}}) ==> {str(out)[:120]}"
    if repr(e) != r0:
        return outcome(name, "violated", detail="replace mutated its input", sample=sample,
                       witness={"structural": "input mutated"})
    from ufl.algorithms.analysis import extract_type
    import ufl.classes as C

    present = set(extract_type(e, C.Terminal))
    # (an input with unexpanded derivative nodes is first expanded by replace(): same value, different object; only the
    #  value is compared for those)
    has_unexpanded = bool(extract_type(e, C.CoefficientDerivative))
    if not has_unexpanded and not any(k in present for k in m) and not (out is e or out == e):
        return outcome(name, "violated", detail="expression without mapped terminals was not returned unchanged",
                       sample=sample, witness={"structural": "identity"})
    # oracle environment: mapped terminals evaluate to their images (in the *original* environment)
    env_o = Env(complex_mode=spec.get("complex", False))
    den_o = Denoter(env_o)
    plain = Env(complex_mode=spec.get("complex", False))
    den_p = Denoter(plain)

    def make(img):
        img = as_ufl(img)

        def ov(comp, derivs, side):
            return den_p.pure_derivative(img, comp, tuple(derivs), (), side)

        return ov

    for k_, img in m.items():
        env_o.arg_override[k_] = make(img)
    if out.ufl_shape != e.ufl_shape:
        return outcome(name, "violated", detail=f"shape {out.ufl_shape} != {e.ufl_shape}", sample=sample,
                       witness={"structural": "shape"})
    pairs = []
    try:
        for comp in den_o.components(e):
            for idx in den_o.index_valuations(e):
                pairs.append((den_o.ev(e, comp, idx, (), None), den_p.ev(out, comp, idx, (), None)))
        diffs = solve.flatten_diffs(pairs)
    except DenotationError as ex:
        return outcome(name, "inconclusive", detail=f"denotation: {ex}", sample=sample)
    r = solve.prove_all_zero(diffs, timeout=60, label=name)
    ok, bad = solve.discharge_lemmas()
    st = r.status if not (r.status == "proved" and bad) else "inconclusive"
    res = [outcome(name, st, stage=r.stage, detail=r.detail or ("values differ" if st == "violated" else ""),
                   witness=r.witness, sample=sample)]
    if spec.get("twin"):
        two = plain.const(2)
        r2 = solve.prove_all_zero(solve.flatten_diffs([(a * two, b) for a, b in pairs]), timeout=30)
        res.append(outcome(name + "#twin", r2.status, twin=True))
    return res


def specs(tier):
    S = []
    P = Pool("triangle", 2)
    E, M = list(expressions(P)), list(mappings(P))
    for e in E:
        for m in M:
            S.append(dict(name=f"expr/{e}/{m}", family="expr", e=e, m=m,
                          twin=(e in ("u*u", "grad_u_dot_w") and m in ("u->h", "u->expr"))))
    for e in ("scalar->vector", "vector->scalar", "vector->number", "tensor->vector", "vector->otherdim"):
        S.append(dict(name=f"shape/{e}", family="shape", e=e))
    for m in ("u->h", "u->expr", "u->zero", "swap_u_h", "absent", "u->0"):
        S.append(dict(name=f"form/{m}", family="form", m=m))
    S.append(dict(name="sequence/variables", family="sequence"))
    if tier == "thorough":
        for e in ("u*u", "innerAA", "grad_w", "restricted"):
            for m in ("u->h", "A->AT", "w->expr"):
                S.append(dict(name=f"expr/{e}/{m}/complex", family="expr", e=e, m=m, complex=True))
    return S


def main():
    tier = harness.tier_from_argv()
    t0 = time.time()
    results = harness.run_pool("checks.C21", "run", specs(tier))
    rc = harness.finish(
        PROP, tier, "translation_validation", results, t0,
        functions=["ufl.algorithms.replace.{replace,Replacer}", "ufl.algorithms.map_integrands.map_integrand_dags"],
        bounds={"expressions": len(expressions(Pool())), "mappings": len(mappings(Pool())),
                "incl.": "zero / python-number images, swaps, self-referential images, absent keys, arguments, "
                         "constants, restrictions, variables, derivatives up to order 2, one form with dx/dx(1)/dS, "
                         "a three-step replace sequence over variables",
                "outside": "ExternalOperator / Interpolate / BaseForm keys"},
        assumptions=["smooth fields; the image's derivatives are taken by dual-number arithmetic"],
        rule="(expression) x (mapping); z3 proves replace(e, m) == e evaluated with mapped terminals (and their "
             "derivatives) overridden by their images, for all field values",
        trusted_base=["vlib/denote.py (arg_override, pure_derivative)", "z3"],
    )
    sys.exit(rc)


if __name__ == "__main__":
    main()
