"""C02 — Gateaux derivatives are the true directional derivatives (E1, dual numbers).

run:    expand_derivatives(derivative(F, w, v[, coefficient_derivatives])), nested twice;
        w whole / component / tuple / mixed split (formoperators._handle_derivative_arguments,
        GateauxDerivativeRuleset, GenericDerivativeRuleset)
oracle: epsilon-part of [[F]] over dual numbers with w -> w + eps v (and grad w -> grad w + eps grad v),
        where the perturbation map is built here from the *request* (F, w, v), not from the
        CoefficientDerivative node the library built
"""

from __future__ import annotations

import sys
import time

import ufl
import ufl.classes as C
from ufl import (Argument, Coefficient, FunctionSpace, as_vector, derivative, div, dot, grad, inner, split)

from checks.common import arg, coef, mesh
from checks.exprpool import Pool
from vlib import elements as el
from vlib import harness, ring, solve, tv
from vlib.denote import Denoter, Env
from vlib.harness import outcome
from vlib.ring import DenotationError

PROP = "C02"


def request(spec):
    """Returns (F, [(coefficient terminal, direction)], ufl derivative expr, extra) for the spec."""
    P = Pool(spec["cell"], spec["gdim"])
    dom, g = P.dom, P.g
    cell = dom.ufl_cell()
    u, h, w, z, A = P.u, P.h, P.w, P.z, P.A
    kind = spec["wrt"]
    pools = {"s": P.scalars(), "v": P.vectors(), "t": P.tensors()}
    extra = {}
    if kind in ("u", "u_auto", "u_coefdir", "u_twice", "u_then_h", "u_exprdir"):
        F = pools[spec["kind"]][spec["key"]]
        du = arg(dom, 1, (), 2)
        if kind == "u":
            return F, {u: du}, derivative(F, u, du), extra
        if kind == "u_auto":
            d = derivative(F, u)
            return F, {u: Argument(u.ufl_function_space(), 0)}, d, extra
        if kind == "u_coefdir":
            return F, {u: h}, derivative(F, u, h), extra
        if kind == "u_exprdir":
            dirn = h * du + 2 * du
            return F, {u: dirn}, derivative(F, u, dirn), extra
        if kind == "u_twice":
            du2 = arg(dom, 2, (), 2)
            extra["second"] = {u: du2}
            return F, {u: du}, derivative(derivative(F, u, du), u, du2), extra
        if kind == "u_then_h":
            dh = arg(dom, 2, (), 2)
            extra["second"] = {h: dh}
            return F, {u: du}, derivative(derivative(F, u, du), h, dh), extra
    if kind in ("w", "w_comp", "w_twice"):
        F = pools[spec["kind"]][spec["key"]]
        dw = arg(dom, 1, (g,), 2)
        if kind == "w":
            return F, {w: dw}, derivative(F, w, dw), extra
        if kind == "w_comp":
            k = spec.get("comp", 0)
            ds = arg(dom, 1, (), 2)
            return F, {w: {(k,): ds}}, derivative(F, w[k], ds), extra
        if kind == "w_twice":
            dw2 = arg(dom, 2, (g,), 2)
            extra["second"] = {w: dw2}
            return F, {w: dw}, derivative(derivative(F, w, dw), w, dw2), extra
    if kind == "A":
        F = pools[spec["kind"]][spec["key"]]
        dA = arg(dom, 1, (g, g), 2)
        return F, {A: dA}, derivative(F, A, dA), extra
    if kind in ("A_comp", "A_comps"):
        # one / two fixed components of a tensor-valued coefficient
        F = pools[spec["kind"]][spec["key"]]
        ds = arg(dom, 1, (), 2)
        c0 = tuple(spec.get("comp", (0, g - 1)))
        if kind == "A_comp":
            return F, {A: {c0: ds}}, derivative(F, A[c0], ds), extra
        c1 = (g - 1, 0)
        dh = coef(dom, (), count=693)
        return F, {A: {c0: ds, c1: dh}}, derivative(F, (A[c0], A[c1]), (ds, dh)), extra
    if kind in ("tuple", "tuple_rev", "tuple_auto"):
        F = pools[spec["kind"]][spec["key"]]
        du = arg(dom, 1, (), 2)
        dh = coef(dom, (), count=690)
        if kind == "tuple":
            return F, {u: du, h: dh}, derivative(F, (u, h), (du, dh)), extra
        if kind == "tuple_rev":
            return F, {u: du, h: dh}, derivative(F, (h, u), (dh, du)), extra
    if kind in ("mixed", "mixed_split", "mixed_sub"):
        M = el.Mixed([el.P(cell, 2, (g,)), el.P(cell, 1)])
        V = FunctionSpace(dom, M)
        m = Coefficient(V, count=680)
        mv, mp = split(m)
        key = spec["key"]
        F = {"stokes": inner(grad(mv), grad(mv)) - mp * div(mv) + mp * mp,
             "convect": dot(dot(grad(mv), mv), mv) * mp, "mass": dot(mv, mv) * mp + ufl.sin(mp)}[key]
        dm = Argument(V, 1)
        if kind == "mixed":
            return F, {m: dm}, derivative(F, m, dm), extra
        if kind == "mixed_split":
            # derivative w.r.t. the pressure component only
            dp = arg(dom, 1, (), 1)
            return F, {m: {(g,): dp}}, derivative(F, m[g], dp), extra
        if kind == "mixed_sub":
            # derivative w.r.t. the velocity sub-function (a ListTensor of components)
            dv = arg(dom, 1, (g,), 2)
            return F, {m: {(k,): dv[k] for k in range(g)}}, derivative(F, mv, dv), extra
    if kind == "cd":
        # user-supplied relation: g depends on u with dg/du = r
        F = pools["s"][spec["key"]]
        du = arg(dom, 1, (), 2)
        r = coef(dom, (), count=691)
        extra["cd"] = {h: r}
        return F, {u: du}, derivative(F, u, du, {h: r}), extra
    if kind == "cd_two":
        # two unexpanded derivatives in one expression: same coefficient and direction,
        # different user-supplied relations
        F = pools["s"][spec["key"]]
        du = arg(dom, 1, (), 2)
        r1, r2 = coef(dom, (), count=691), coef(dom, (), count=692)
        extra["cd"] = {h: r1}
        extra["sum_with"] = ({u: du}, {h: r2})
        return F, {u: du}, derivative(F, u, du, {h: r1}) + derivative(F, u, du, {h: r2}), extra
    raise KeyError(kind)


def _cd_rule(r, v):
    def rule(d, comp, derivs, rest, side):
        if derivs:
            raise DenotationError("spatial derivative of a user-related coefficient")
        return d.ev(r, (), {}, rest, side) * d.ev(v, (), {}, rest, side)

    return rule


def run(spec):
    from ufl.algorithms import expand_derivatives

    name = spec["name"]
    try:
        F, m1, dexpr, extra = request(spec)
    except KeyError as ke:
        return outcome(name, "rejected", detail=f"not applicable: {ke}")
    r0 = repr(F)
    try:
        out = expand_derivatives(dexpr)
    except Exception as ex:
        # the statement allows raising instead of returning a wrong value
        return outcome(name, "rejected", detail=f"expansion raised {type(ex).__name__}: {str(ex)[:120]}",
                       sample=str(F)[:200])
    if repr(F) != r0:
        return outcome(name, "inconclusive", detail="input mutated")
    env = Env(complex_mode=spec.get("complex", False))
    den = Denoter(env)
    env.gateaux["g1"] = m1
    ctx = (("gat", "g1"),)
    if "cd" in extra:
        (gcoef, r), = extra["cd"].items()
        (wt, v), = m1.items()
        env.gateaux_cd["g1"] = {gcoef: _cd_rule(r, v)}
    if "sum_with" in extra:
        mB, cdB = extra["sum_with"]
        env.gateaux["gB"] = mB
        (gcoef, r), = cdB.items()
        (wt, v), = mB.items()
        env.gateaux_cd["gB"] = {gcoef: _cd_rule(r, v)}
    if "second" in extra:
        env.gateaux["g2"] = extra["second"]
        ctx = (("gat", "g2"), ("gat", "g1"))
    sample = f"d/d{spec['wrt']} [{str(F)[:150]}]  ==>  {str(out)[:150]}"
    if out.ufl_shape != F.ufl_shape:
        return outcome(name, "violated", detail=f"shape {out.ufl_shape} != {F.ufl_shape}", sample=sample,
                       witness={"structural": "shape"})
    pairs = []
    try:
        for comp in den.components(F):
            for idx in den.index_valuations(F):
                v = den.ev(F, comp, idx, ctx, None)
                for _ in ctx:
                    v = v.b
                if "sum_with" in extra:
                    v = v + den.ev(F, comp, idx, (("gat", "gB"),), None).b
                pairs.append((v, den.ev(out, comp, idx, (), None)))
        diffs = solve.flatten_diffs(pairs)
    except DenotationError as ex:
        return outcome(name, "inconclusive", detail=f"denotation: {ex}", sample=sample)
    from vlib import lemmas

    li, ln = lemmas.instances(diffs)
    r = solve.prove_all_zero(diffs, timeout=60, lemma_instances=li, label=name)
    ok, bad = solve.discharge_lemmas()
    st = r.status if not (r.status == "proved" and bad) else "inconclusive"
    res = [outcome(name, st, stage=r.stage, detail=r.detail or ("values differ" if st == "violated" else ""),
                   witness=r.witness, sample=sample, lemma_instances=sorted(set(ln)) if r.stage in (2, 3) else [])]
    if spec.get("twin"):
        two = env.const(2)
        r2 = solve.prove_all_zero(solve.flatten_diffs([(a * two, b) for a, b in pairs]), timeout=30)
        res.append(outcome(name + "#twin", r2.status, twin=True))
    return res


def specs(tier):
    S = []
    thorough = tier == "thorough"

    def add(**kw):
        kw["name"] = "/".join(f"{k}={v}" for k, v in kw.items() if k not in ("twin",)).replace(" ", "")
        S.append(kw)

    P = Pool("triangle", 2)
    sk, vk, tk = list(P.scalars()), list(P.vectors()), list(P.tensors())
    for cell, g in (("triangle", 2),) + ((("tetrahedron", 3),) if thorough else ()):
        for key in sk:
            for wrt in ("u", "u_coefdir", "u_twice", "u_then_h", "w", "w_comp", "A", "tuple", "tuple_rev", "u_exprdir"):
                if not thorough and wrt in ("u_exprdir",) and key not in ("u*u", "sin", "div"):
                    continue
                if key == "pow_const_base" and wrt == "u_twice":
                    # ln(2)*ln(2) is constant-folded in double precision by the constructors:
                    # rounding of constant folding is outside the claim
                    continue
                add(cell=cell, gdim=g, kind="s", key=key, wrt=wrt, twin=(key == "u*u" and wrt in ("u", "tuple")))
            if key in ("u*u", "u*h", "sin", "cond"):
                add(cell=cell, gdim=g, kind="s", key=key, wrt="u_auto")
                add(cell=cell, gdim=g, kind="s", key=key, wrt="cd")
                add(cell=cell, gdim=g, kind="s", key=key, wrt="cd_two")
                add(cell=cell, gdim=g, kind="s", key=key, wrt="w_twice")
                add(cell=cell, gdim=g, kind="s", key=key, wrt="w_comp", comp=1)
                if key in ("tr", "innerAA", "det", "Aww", "A01"):
                    add(cell=cell, gdim=g, kind="s", key=key, wrt="A_comp")
                    add(cell=cell, gdim=g, kind="s", key=key, wrt="A_comp", comp=(1, 1))
                    add(cell=cell, gdim=g, kind="s", key=key, wrt="A_comps")
        for key in vk:
            for wrt in ("u", "w", "w_comp", "A", "w_twice", "tuple_rev"):
                add(cell=cell, gdim=g, kind="v", key=key, wrt=wrt)
        for key in tk:
            for wrt in ("u", "w", "A", "A_comp", "A_comps"):
                add(cell=cell, gdim=g, kind="t", key=key, wrt=wrt)
            add(cell=cell, gdim=g, kind="t", key=key, wrt="A_comp", comp=(1, 0))
        for key in ("stokes", "convect", "mass"):
            for wrt in ("mixed", "mixed_split", "mixed_sub"):
                add(cell=cell, gdim=g, kind="m", key=key, wrt=wrt, twin=(key == "mass" and wrt == "mixed"))
    # complex mode: conj / real / imag and inner products
    for key in ("u*u", "u*h", "dot", "innerAA", "exp", "abs"):
        for wrt in ("u", "w", "A"):
            add(cell="triangle", gdim=2, kind="s", key=key, wrt=wrt, complex=True)
    return S


def main():
    tier = harness.tier_from_argv()
    t0 = time.time()
    results = harness.run_pool("checks.C02", "run", specs(tier))
    lem = sorted({l for r in results for l in r.get("lemma_instances", [])})
    rc = harness.finish(
        PROP, tier, "translation_validation", results, t0,
        functions=["ufl.formoperators.{derivative,_handle_derivative_arguments}",
                   "ufl.algorithms.apply_derivatives.{GateauxDerivativeRuleset,GenericDerivativeRuleset,"
                   "DerivativeRuleDispatcher}", "ufl.algorithms.ad.expand_derivatives"],
        bounds={"integrand pool": "checks/exprpool.py", "w": "scalar / vector / tensor coefficient, fixed component, "
                "tuple (both orders), mixed coefficient whole / one component / sub-function", "direction": "argument, "
                "coefficient, expression", "order": "<= 2 (same and different coefficient)", "coefficient_derivatives":
                "one scalar relation", "outside": "order > 2; CoordinateDerivative; BaseFormOperator derivatives"},
        assumptions=["smooth fields; w, grad w perturbed together (grad(w + eps v) = grad w + eps grad v)",
                     "textbook derivatives of math functions; lemma instances used: " + (", ".join(lem) or "none"),
                     "points where F is smooth", "abs differentiated as sgn with sgn(0)=0 (real data)"],
        rule="(integrand from the pool) x (choice of coefficient/direction); the perturbation map is built from the "
             "request; z3 proves expanded derivative == epsilon part for all field values",
        trusted_base=["vlib/denote.py (dual numbers)", "vlib/ring.py (DERIV)", "vlib/lemmas.py", "z3"],
        extra={"lemma_instance_kinds_used": lem},
    )
    sys.exit(rc)


if __name__ == "__main__":
    main()
