"""C14 — the arity check accepts exactly multilinear integrands (E1).

run:    ufl.algorithms.check_arities.check_integrand_arity (ArityChecker) directly and
        through compute_form_data, real and complex mode
oracle: *semantic* multilinearity decided by the solver: with the jet symbols of argument k
        replaced by alpha*a + beta*b, [[F]](alpha a + beta b) == alpha [[F]](a) + beta [[F]](b)
        (conjugate-linear in argument 0 in complex mode), for every argument of the form.
        accepted => must be proved; accepted and refuted => violation;
        rejected => nothing to show (rejecting a linear integrand is allowed)
"""

from __future__ import annotations

import sys
import time

import ufl
from ufl import (as_vector, avg, conditional, conj, cos, div, dot, dS, ds, dx, exp, grad, imag, inner, jump, lt,
                 outer, real, sin, sqrt, variable)

from checks.common import arg, coef, mesh
from vlib import elements as el
from vlib import harness, ring, solve
from vlib import terms as tm
from vlib.denote import Denoter, Env
from vlib.harness import outcome
from vlib.ring import Cx, DenotationError, Frac

PROP = "C14"


def integrands(dom):
    g = dom.geometric_dimension
    v = arg(dom, 0, (), 1)
    u = arg(dom, 1, (), 1)
    vv = arg(dom, 0, (g,), 1)
    uu = arg(dom, 1, (g,), 1)
    f = coef(dom, (), count=800)
    k = coef(dom, (), count=801)
    w = coef(dom, (g,), count=802)
    V2 = ufl.MixedFunctionSpace(ufl.FunctionSpace(dom, el.P(dom.ufl_cell(), 1)), ufl.FunctionSpace(dom, el.P(dom.ufl_cell(), 1)))
    v0p, v1p = ufl.TestFunctions(V2)
    u0p, u1p = ufl.TrialFunctions(V2)
    i = ufl.Index()
    one = ufl.as_ufl(1.0)
    E = {
        # linear forms (arguments: v)
        "L/f*v": (f * v, [v]), "L/inner(f,v)": (inner(f, v), [v]), "L/inner(v,f)": (inner(v, f), [v]),
        "L/grad": (inner(grad(f), grad(v)), [v]), "L/dot_w_gradv": (dot(w, grad(v)), [v]),
        "L/conj": (f * conj(v), [v]), "L/affine": (f * v + f, [v]), "L/affine2": ((v + 1) * f, [v]),
        "L/quadratic": (v * v * f, [v]), "L/sin": (sin(v) * f, [v]), "L/div_by_v": (f / v, [v]),
        "L/f_exp_v": (f * exp(v), [v]), "L/v_exp_v": (conj(v) * exp(v), [v]), "L/v_abs_v": (conj(v) * abs(v) * f, [v]),
        "L/v_sin_v": (conj(v) * sin(v), [v]),
        "L/v_div_f": (conj(v) / f, [v]), "L/abs": (abs(v) * f, [v]), "L/pow1": (v**1 * f, [v]),
        "L/cond_v_0": (conditional(lt(f, k), conj(v), 0) * f, [v]), "L/cond_0_v": (conditional(lt(f, k), 0, conj(v)), [v]),
        "L/cond_v_v": (conditional(lt(f, k), conj(v) * f, conj(v) * k), [v]),
        "L/cond_v_const": (conditional(lt(f, k), conj(v), 1), [v]), "L/cond_v_f": (conditional(lt(f, k), conj(v), f), [v]),
        "L/cond_on_v": (conditional(lt(v, k), f, k), [v]),
        "L/cond_const_v": (conditional(lt(f, k), 1, conj(v)), [v]), "L/cond_f_v": (conditional(lt(f, k), f, conj(v)), [v]),
        "L/cond_f_fv": (conditional(lt(f, k), f, f * conj(v)), [v]), "L/cond_0_v_times": (conditional(lt(f, k), 0, conj(v)) * f, [v]),
        # one argument with different conjugation in different components of a list tensor (either order)
        "L/list_mixed_conj_last": (as_vector([vv[0], conj(vv[1])])[i] * w[i] if g == 2 else f * conj(v), [vv] if g == 2 else [v]),
        "L/list_mixed_conj_first": (as_vector([conj(vv[0]), vv[1]])[i] * w[i] if g == 2 else f * conj(v), [vv] if g == 2 else [v]),
        "L/list_both_conj": (as_vector([conj(vv[0]), 2 * conj(vv[1])])[i] * w[i] if g == 2 else f * conj(v), [vv] if g == 2 else [v]),
        "L/list_v_0": (as_vector([conj(v), 0])[i] * w[i] if g == 2 else f * conj(v), [v]),
        "L/list_v_1": (as_vector([conj(v), 1])[i] * w[i] if g == 2 else f * conj(v) + f, [v]),
        "L/list_v_f": (dot(as_vector([conj(v), f] + [0] * (g - 2)), w), [v]),
        "L/list_v_v": (dot(as_vector([conj(v), 2 * conj(v)] + [0] * (g - 2)), w), [v]),
        "L/list_nested": (as_vector([as_vector([conj(v), f])[0], 0])[0] * f if g == 2 else f * conj(v), [v]),
        "L/list_zero_expr": (dot(as_vector([conj(v), 0 * f] + [0] * (g - 2)), w), [v]),
        "L/variable": (variable(conj(v)) * f, [v]), "L/variable_affine": (variable(conj(v) + f) * f, [v]),
        "L/vec": (inner(w, vv), [vv]), "L/vec_dot": (dot(w, conj(vv)), [vv]), "L/vec_div": (f * conj(div(vv)), [vv]),
        "L/vec_comp": (conj(vv[0]) * f + conj(vv[g - 1]) * k, [vv]), "L/vec_comp_affine": (conj(vv[0]) * f + k, [vv]),
        "L/outer": (inner(outer(w, w), outer(vv, w)), [vv]), "L/real": (real(v) * f, [v]), "L/imag": (imag(v) * f, [v]),
        "L/sum_conj_mix": (f * conj(v) + f * v, [v]), "L/missing_arg": (f * k, [v]),
        "L/sqrt_sq": (sqrt(v * v) * f, [v]), "L/exp": (exp(v), [v]), "L/zero_times": (0 * v + f * conj(v), [v]),
        # bilinear forms (arguments: v, u)
        "B/u*v": (u * conj(v), [v, u]), "B/inner(u,v)": (inner(u, v), [v, u]), "B/inner(v,u)": (inner(v, u), [v, u]),
        "B/gradgrad": (f * inner(grad(u), grad(v)), [v, u]), "B/dot_gradgrad": (dot(grad(u), grad(conj(v))), [v, u]),
        "B/u*v+v": (u * conj(v) + conj(v), [v, u]), "B/u*v+u": (u * conj(v) + u, [v, u]),
        "B/u*u*v": (u * u * conj(v), [v, u]), "B/u*v*v": (u * conj(v) * conj(v), [v, u]),
        "B/u_times_cond_k_v": (u * conditional(lt(f, 1), k, conj(v)), [v, u]), "B/cond_0_uv": (conditional(lt(f, 1), 0, inner(u, v)), [v, u]),
        "B/cond": (conditional(lt(f, 1), inner(u, v), 0), [v, u]), "B/cond_mixed": (conditional(lt(f, 1), inner(u, v), conj(v)), [v, u]),
        "B/cond_uv_uvk": (conditional(lt(f, k), inner(u, v), k * inner(u, v)), [v, u]),
        "B/sum_swapped": (inner(u, v) + inner(v, u), [v, u]), "B/u/f*v": (u / f * conj(v), [v, u]),
        "B/u/(v)": (u / v, [v, u]), "B/sin(u)v": (sin(u) * conj(v), [v, u]),
        "B/vec": (inner(dot(grad(uu), w), vv), [vv, uu]), "B/vec_div": (div(uu) * conj(div(vv)), [vv, uu]),
        "B/vec_list": (inner(as_vector([uu[0], 0] + [0] * (g - 2)), vv), [vv, uu]),
        "B/vec_list_const": (inner(as_vector([uu[0], 1] + [0] * (g - 2)), vv), [vv, uu]),
        "B/vec_list_mixed": (inner(as_vector([uu[0], conj(vv[0])] + [0] * (g - 2)), vv), [vv, uu]),
        "B/only_v": (f * conj(v), [v, u]), "B/only_u": (f * u, [v, u]),
        "B/u*conj(u)": (u * conj(u), [v, u]), "B/outer": (inner(outer(uu, w), outer(vv, w)), [vv, uu]),
        "B/restricted": (jump(u) * conj(avg(v)), [v, u]), "B/restricted_affine": (jump(u) * conj(avg(v)) + conj(v("+")), [v, u]),
        "B/variable": (variable(u) * conj(v) * f, [v, u]),
        # mixed function space parts
        "P/v0*v1": (f * conj(v0p) * conj(v1p), [v0p, v1p]), "P/v0+v1": (f * conj(v0p) + k * conj(v1p), [v0p, v1p]),
        "P/u0v0+u1v1": (u0p * conj(v0p) + u1p * conj(v1p), [v0p, v1p, u0p, u1p]),
        "P/u0v1": (u0p * conj(v1p) * f, [v0p, v1p, u0p, u1p]),
        "P/u0*u1*v0": (u0p * u1p * conj(v0p), [v0p, v1p, u0p, u1p]),
    }
    return E


def lincheck(den_mk, e, args, complex_mode):
    """Bool term list (differences) for linearity in each argument."""
    diffs_all = []
    numbers = sorted({a.number() for a in args})
    for number in numbers:
        # all parts of one argument number form ONE form argument (a function on the mixed space)
        group = [a for a in args if a.number() == number]
        # three environments: the argument replaced by alpha*A + beta*B, by A, by B
        vals = {}
        for tag in ("mix", "A", "B"):
            env = Env(complex_mode=complex_mode)
            den = Denoter(env)
            al = env.base("alpha")
            be = env.base("beta")

            def mk(a, env=env, tag=tag, al=al, be=be):
                def ov(comp, derivs, side):
                    nm = f"{env.tname(a)}{list(comp)}{env.dname(derivs)}" + (f"@{side}" if side else "")
                    A_ = env.base("A!" + nm)
                    B_ = env.base("B!" + nm)
                    if tag == "A":
                        return A_
                    if tag == "B":
                        return B_
                    return al * A_ + be * B_

                return ov

            for a in group:
                env.arg_override[a] = mk(a)
            vals[tag] = (den.ev(e, (), {}, (), None), al, be)
        mix, al, be = vals["mix"]
        fa, fb = vals["A"][0], vals["B"][0]
        if complex_mode and number == 0:
            want = ring.conj(al) * fa + ring.conj(be) * fb
        else:
            want = al * fa + be * fb
        diffs_all.append((mix, want))
    return diffs_all


def run(spec):
    from ufl.algorithms.check_arities import ArityMismatch, check_integrand_arity

    name = spec["name"]
    if "_integrand" in spec:
        e, args = spec["_integrand"]          # built by run_seq on the same mesh as the earlier integrands
    else:
        dom = mesh(spec["cell"])
        e, args = integrands(dom)[spec["key"]]
    cm = spec["complex"]
    if spec.get("lower", True):
        from ufl.algorithms import expand_derivatives
        from ufl.algorithms.apply_algebra_lowering import apply_algebra_lowering

        e = expand_derivatives(apply_algebra_lowering(e))
    if not cm:
        from ufl.algorithms.remove_complex_nodes import remove_complex_nodes

        try:
            e = remove_complex_nodes(e)
        except Exception as ex:
            return outcome(name, "rejected", detail=f"real mode rejects the integrand: {type(ex).__name__}",
                           sample=str(e)[:150])
    sample = f"[{'complex' if cm else 'real'}] {str(e)[:200]}  args={[str(a) for a in args]}"
    try:
        check_integrand_arity(e, args, cm)
        accepted = True
    except ArityMismatch as am:
        return outcome(name, "rejected", detail=f"ArityMismatch: {str(am)[:120]}", sample=sample, accepted=False)
    if e.ufl_shape != () or e.ufl_free_indices:
        return outcome(name, "inconclusive", detail="integrand is not a closed scalar", sample=sample)
    try:
        pairs = lincheck(None, e, args, cm)
        diffs = solve.flatten_diffs(pairs)
    except DenotationError as ex:
        return outcome(name, "inconclusive", detail=f"denotation: {ex}", sample=sample)
    r = solve.prove_all_zero(diffs, timeout=60, label=name)
    ok, bad = solve.discharge_lemmas()
    st = r.status if not (r.status == "proved" and bad) else "inconclusive"
    det = "accepted; " + ("multilinear for all values" if st == "proved" else
                          "accepted but NOT linear in an argument" if st == "violated" else str(r.detail))
    return outcome(name, st, stage=r.stage, detail=det, witness=r.witness, sample=sample, accepted=True)


def run_twin(spec):
    """Vacuity guard: integrands known to be non-linear must be refuted by the linearity query
    (the arity checker is bypassed)."""
    name = spec["name"]
    dom = mesh("triangle")
    e, args = integrands(dom)[spec["key"]]
    from ufl.algorithms import expand_derivatives
    from ufl.algorithms.apply_algebra_lowering import apply_algebra_lowering

    e = expand_derivatives(apply_algebra_lowering(e))
    pairs = lincheck(None, e, args, spec["complex"])
    r = solve.prove_all_zero(solve.flatten_diffs(pairs), timeout=60, label=name)
    return outcome(name, r.status, twin=True)


def run_seq(spec):
    """History: the checker is first applied to integrands it must reject (in the same process), then to the
    integrand of the obligation; an acceptance must still mean multilinearity."""
    from ufl.algorithms.check_arities import ArityMismatch, check_integrand_arity

    dom = mesh(spec["cell"])
    E = integrands(dom)
    for k in spec["before"]:
        e, args = E[k]
        from ufl.algorithms import expand_derivatives
        from ufl.algorithms.apply_algebra_lowering import apply_algebra_lowering

        try:
            check_integrand_arity(expand_derivatives(apply_algebra_lowering(e)), args, spec["complex"])
        except ArityMismatch:
            pass
    return run(dict(spec, lower=True, _integrand=E[spec["key"]]))


def dispatch(spec):
    if spec.get("before"):
        return run_seq(spec)
    return run_twin(spec) if spec.get("twinrun") else run(spec)


def specs(tier):
    S = []
    dom = mesh("triangle")
    keys = list(integrands(dom))
    cells = ["triangle"] + (["tetrahedron"] if tier == "thorough" else [])
    for cell in cells:
        for k in keys:
            for cm in (False, True):
                S.append(dict(name=f"{cell}/{'complex' if cm else 'real'}/{k}", cell=cell, key=k, complex=cm))
    for before, k in ((["L/f_exp_v"], "L/v_exp_v"), (["L/sin", "L/abs"], "L/v_abs_v"), (["L/f_exp_v", "L/sin"], "L/v_sin_v"),
                      (["L/quadratic", "L/div_by_v"], "L/f*v"), (["L/f_exp_v"], "L/conj")):
        for cm in (False, True):
            S.append(dict(name=f"seq/{'+'.join(b.split('/')[1] for b in before)}->{k}/{'complex' if cm else 'real'}", cell="triangle",
                          key=k, complex=cm, before=before))
    for k, cm in (("L/affine", False), ("L/quadratic", False), ("B/u*v+v", False), ("L/inner(v,f)", True),
                  ("B/inner(v,u)", True), ("L/cond_v_const", False)):
        S.append(dict(name=f"twin/{k}/{cm}#twin", key=k, complex=cm, twinrun=True))
    return S


def main():
    tier = harness.tier_from_argv()
    t0 = time.time()
    results = harness.run_pool("checks.C14", "dispatch", specs(tier))
    acc = sum(1 for r in results if r.get("accepted"))
    rc = harness.finish(
        PROP, tier, "translation_validation", results, t0,
        functions=["ufl.algorithms.check_arities.{check_integrand_arity,ArityChecker}",
                   "preceded by apply_algebra_lowering/expand_derivatives (and remove_complex_nodes in real mode) "
                   "as in compute_form_data"],
        bounds={"integrand skeletons": len(integrands(mesh('triangle'))), "modes": "real and complex",
                "arguments": "numbers 0/1, scalar and vector, MixedFunctionSpace parts",
                "outside": "integrands with 3+ argument numbers; base form operators"},
        assumptions=["argument jets (value and derivatives) are independent symbols; linear combination taken jointly "
                     "on the value and all derivatives", "division where the divisor is non-zero"],
        rule="one obligation per (integrand, mode): if the real checker accepts, z3 must prove linearity (antilinearity "
             "in the test function in complex mode) in each argument for all values; rejected integrands are recorded "
             "as such (status rejected) and need no proof",
        trusted_base=["vlib/denote.py", "z3"],
        extra={"accepted_and_proved": acc, "rejected_by_checker": sum(1 for r in results if r["status"] == "rejected")},
    )
    sys.exit(rc)


if __name__ == "__main__":
    main()
