"""C17 — restriction propagation preserves two-sided integrands (E1, two-sided environment).

run:    ufl.algorithms.apply_restrictions.{apply_restrictions,RestrictionPropagator} with and without
        default restrictions, directly and through compute_form_data (FormData) for dS, dS_h, dS_v
oracle: [[in]] == [[out]] in an environment with separate '+' / '-' symbols where continuity is built in:
        values of H1 coefficients, coordinates, facet quantities and weights are one symbol for both sides
        (their gradients are not), and n('-') = -n('+') on affine non-manifold meshes only.
side:   every side-dependent terminal restricted exactly once, restrictions only on terminals (or grads of
        them); missing / double restrictions must raise  (checked directly)
"""

from __future__ import annotations

import sys
import time

import ufl
import ufl.classes as C
from ufl import (Coefficient, Constant, FacetArea, FacetNormal, FunctionSpace, SpatialCoordinate, TestFunction,
                 TrialFunction, avg, conditional, div, dot, dS, exp, grad, inner, jump, lt, sin)
from ufl.sobolevspace import H1

from checks.common import mesh
from vlib import elements as el
from vlib import harness, ring, tv
from vlib.denote import Env
from vlib.harness import outcome

PROP = "C17"


class TwoSided(Env):
    """'+'/'-' symbols with continuity built in."""

    def __init__(self, affine_flat=True, complex_mode=False):
        super().__init__(complex_mode)
        self.affine_flat = affine_flat

    def symbol(self, t, comp, derivs, side):
        if isinstance(t, C.Coefficient) and t.ufl_element() in H1 and not derivs:
            side = None          # continuous value: the same from both sides
        if isinstance(t, C.SpatialCoordinate) and not derivs:
            side = None
        return super().symbol(t, comp, derivs, side)

    def geometric(self, t, comp, derivs, side):
        if derivs:
            return super().geometric(t, comp, derivs, side)
        if isinstance(t, C.FacetNormal):
            if self.affine_flat:
                v = self.real_base(f"FacetNormal{list(comp)}@+".replace(" ", ""))
                return v if side in ("+", None) else -v
            return self.real_base(f"FacetNormal{list(comp)}@{side}".replace(" ", ""))
        if isinstance(t, (C.GeometricFacetQuantity, C.QuadratureWeight, C.ReferenceCellVolume, C.ReferenceFacetVolume)):
            return self.real_base(f"{type(t).__name__}{list(comp)}".replace(" ", ""))
        return self.real_base((f"{type(t).__name__}{list(comp)}" + (f"@{side}" if side else "")).replace(" ", ""))


def world(cell, g):
    dom = mesh(cell, g)
    c = dom.ufl_cell()
    W = dict(dom=dom, g=g)
    W["u"] = Coefficient(FunctionSpace(dom, el.P(c, 2)), count=1100)          # H1
    W["k"] = Coefficient(FunctionSpace(dom, el.P(c, 1)), count=1101)          # H1
    W["d"] = Coefficient(FunctionSpace(dom, el.DG(c, 1)), count=1102)         # L2
    W["w"] = Coefficient(FunctionSpace(dom, el.P(c, 1, (g,))), count=1103)    # H1 vector
    W["s"] = Coefficient(FunctionSpace(dom, el.RT(c)), count=1104)            # HDiv
    W["v"] = TestFunction(FunctionSpace(dom, el.P(c, 1)))
    W["t"] = TrialFunction(FunctionSpace(dom, el.P(c, 1)))
    W["c"] = Constant(dom, count=1105)
    W["x"] = SpatialCoordinate(dom)
    W["n"] = FacetNormal(dom)
    W["h"] = FacetArea(dom)
    return W


def integrands(W):
    u, k, d, w, s, v, t, c, x, n, h = (W[q] for q in "u k d w s v t c x n h".split())
    E = {
        # (expression, must_raise_with_default, must_raise_without_default)
        "jump_avg": (jump(t) * avg(v), False),
        "products_restricted": ((u * d * v)("+") + (k * t)("-") * v("+"), False),
        "sum_restricted": ((u + d * d)("-") * v("-"), False),
        "h1_unrestricted": (u * k * jump(v), False),
        "h1_unrestricted_nonlinear": (sin(u) * exp(k) * v("+") + conditional(lt(u, k), u, k) * v("-"), False),
        "x_unrestricted": (dot(x, x) * v("+") + x[0] * d("-") * v("-"), False),
        "constant": (c * jump(v) + 2 * v("+"), False),
        "facet_area": (h * avg(t) * jump(v), False),
        "grad_restricted": (inner(grad(u)("+"), grad(v)("-")) + inner(jump(grad(t)), avg(grad(v))), False),
        "grad_of_product": (dot(grad(u * d)("+"), grad(v)("+")), False),
        "div_restricted": (div(w)("-") * v("+") + jump(div(s)) * avg(v), False),
        "normal_plus": (dot(grad(u)("+"), n("+")) * v("+"), False),
        "normal_minus": (dot(grad(u)("-"), n("-")) * v("-"), False),
        "normal_mixed": (dot(n("-"), grad(d)("+")) * v("-") + dot(w("+"), n("-")) * v("+"), False),
        "jump_normal": (dot(jump(u * t, n), grad(v)("+")), False),
        "flux": (dot(avg(grad(t)), n("+")) * jump(v) - dot(jump(s), n("-")) * avg(v), False),
        "n_times_n": (dot(n("+"), n("-")) * v("+") + dot(n("-"), n("-")) * v("-"), False),
        "nested_ops_inside": ((u * (d + t) / (1 + k * k))("+") * v("-"), False),
        "variable_inside": (ufl.variable(d * d)("+") * v("+"), False),
        # must be rejected
        "missing_dg": (d * v("+"), True),
        "missing_argument": (u("+") * v, True),
        "missing_grad": (dot(grad(u), grad(v)("+")), True),
        "missing_normal": (dot(w("+"), n) * v("+"), True),
        # facet quantities defined relative to ONE cell (reference normal, cell-facet Jacobian, ...) and cell
        # quantities differ between the two sides: unrestricted use must be rejected
        "missing_reference_normal": (C.ReferenceNormal(W["dom"])[0] * v("+"), True),
        "missing_cell_facet_jacobian": ((C.CellFacetJacobian(W["dom"])[0, 0] if W["dom"].topological_dimension >= 2 else C.ReferenceNormal(W["dom"])[0]) * v("+"), True),
        "missing_cell_facet_origin": (C.CellFacetOrigin(W["dom"])[0] * v("+"), True),
        "missing_cell_volume": (C.CellVolume(W["dom"]) * v("+"), True),
        "missing_jacobian": (C.Jacobian(W["dom"])[0, 0] * v("+"), True),
        "missing_circumradius": (C.Circumradius(W["dom"]) * v("-"), True),
        "double": ((d("+") * v("+"))("-"), True),
        "double_nested": ((u * d("-"))("+") * v("+"), True),
    }
    return E


def structural_ok(out):
    """restrictions only on terminals / grads of terminals; none nested"""
    from ufl.corealg.traversal import unique_pre_traversal

    for nnode in unique_pre_traversal(out):
        if isinstance(nnode, C.Restricted):
            o = nnode.ufl_operands[0]
            while isinstance(o, (C.Grad, C.ReferenceGrad, C.ReferenceValue)):
                o = o.ufl_operands[0]
            if not isinstance(o, C.Terminal):
                return f"restriction left on operator {type(o).__name__}"
    # side-dependent terminals must sit under exactly one restriction
    def walk(e, depth):
        if isinstance(e, C.Restricted):
            return walk(e.ufl_operands[0], depth + 1)
        if isinstance(e, (C.Argument,)) and depth != 1:
            return f"argument under {depth} restrictions"
        if isinstance(e, C.Coefficient) and e.ufl_element() not in H1 and depth != 1:
            return f"discontinuous coefficient under {depth} restrictions"
        if isinstance(e, C.Grad) and depth != 1:
            return f"gradient under {depth} restrictions"
        if isinstance(e, C.Terminal):
            return None if depth <= 1 else f"terminal under {depth} restrictions"
        for o in e.ufl_operands:
            r = walk(o, depth)
            if r:
                return r
        return None

    return walk(out, 0)


def run(spec):
    from ufl.algorithms import expand_derivatives
    from ufl.algorithms.apply_restrictions import apply_restrictions

    name = spec["name"]
    if spec["family"] == "formdata":
        return run_formdata(spec)
    W = world(spec["cell"], spec["gdim"])
    e, must_raise = integrands(W)[spec["key"]]
    e = expand_derivatives(e)
    r0 = repr(e)
    default = {W["dom"]: "+"} if spec["default"] else None
    sample = f"{spec['key']} default={spec['default']}: {str(e)[:200]}"
    try:
        out = apply_restrictions(e, default_restrictions=default)
        raised = None
    except Exception as ex:
        raised = ex
    if must_raise and spec["default"]:
        if raised is None:
            return outcome(name, "violated", detail="missing/double restriction accepted", sample=sample,
                           witness={"structural": "accepted"})
        return outcome(name, "proved", stage="raise", detail=f"rejected: {str(raised)[:80]}", sample=sample)
    if must_raise and not spec["default"]:
        if spec["key"].startswith("double"):
            if raised is None:
                return outcome(name, "violated", detail="double restriction accepted", sample=sample,
                               witness={"structural": "accepted"})
            return outcome(name, "proved", stage="raise", detail=f"rejected: {str(raised)[:80]}", sample=sample)
        # without defaults the propagator only propagates; missing restrictions are not its business
        if raised is not None:
            return outcome(name, "rejected", detail=f"raised {str(raised)[:80]}", sample=sample)
    if raised is not None:
        return outcome(name, "violated", detail=f"raised {type(raised).__name__}: {str(raised)[:150]}", sample=sample,
                       witness={"exception": repr(raised)[:200]})
    flat = spec["gdim"] == W["dom"].topological_dimension
    res = [tv.compare(name, e, out, TwoSided(affine_flat=flat), timeout=60, in_repr=r0, sample=sample + " ==> " + str(out)[:150])]
    if res[0]["status"] == "proved" and spec["default"]:
        bad = structural_ok(out)
        if bad:
            res[0] = outcome(name, "violated", detail=bad, sample=sample, witness={"structural": bad})
    if spec.get("twin"):
        ring.reset()
        res.append(tv.compare(name + "#twin", e, 2 * out, TwoSided(affine_flat=flat), timeout=60, twin=True))
    return res


def run_formdata(spec):
    from ufl.algorithms import compute_form_data

    name = spec["name"]
    kind = spec["measure"]
    if kind == "dS":
        dom = mesh("triangle", 2)
        meas = dS
    else:
        cellp = ufl.TensorProductCell(ufl.triangle, ufl.interval)
        dom = ufl.Mesh(el.P(cellp, 1, (3,)))
        meas = {"dS_h": ufl.dS_h, "dS_v": ufl.dS_v}[kind]
    c = dom.ufl_cell()
    u = Coefficient(FunctionSpace(dom, el.P(c, 2)), count=1110)
    d = Coefficient(FunctionSpace(dom, el.DG(c, 1)), count=1111)
    v = TestFunction(FunctionSpace(dom, el.P(c, 1)))
    t = TrialFunction(FunctionSpace(dom, el.P(c, 1)))
    which = spec["which"]
    F = {"ok": (u * jump(t) * avg(v) + (d * t)("+") * v("-")) * meas,
         "missing": d * t("+") * v("-") * meas,
         "double": (d("+") * t("+"))("-") * v("-") * meas}[which]
    sample = f"compute_form_data({which} form on {kind})"
    try:
        fd = compute_form_data(F)
        raised = None
    except Exception as ex:
        raised = ex
    if which != "ok":
        if raised is None:
            return outcome(name, "violated", detail=f"{which} restriction accepted by compute_form_data on {kind}",
                           sample=sample, witness={"structural": "accepted"})
        return outcome(name, "proved", stage="raise", detail=f"rejected: {str(raised)[:80]}", sample=sample)
    if raised is not None:
        return outcome(name, "violated", detail=f"raised {type(raised).__name__}: {str(raised)[:150]}", sample=sample,
                       witness={"exception": repr(raised)[:200]})
    res = []
    for itd in fd.integral_data:
        for itg in itd.integrals:
            out = itg.integrand()
            bad = structural_ok(out)
            if bad:
                res.append(outcome(name, "violated", detail=f"{kind}: {bad}", sample=sample + " :: " + str(out)[:150],
                                   witness={"structural": bad}))
                continue
            ring.reset()
            res.append(tv.compare(name, F.integrals()[0].integrand(), out, TwoSided(affine_flat=False), timeout=60,
                                  sample=sample + " :: " + str(out)[:150]))
    return res or [outcome(name, "violated", detail="no integral data", witness={"structural": "empty"})]


def specs(tier):
    S = []
    W = world("triangle", 2)
    keys = list(integrands(W))
    for cell, g in (("triangle", 2), ("triangle", 3), ("tetrahedron", 3), ("interval", 1)):
        for k in keys:
            for default in (True, False):
                S.append(dict(name=f"{cell}{g}/{k}/default={default}", family="expr", cell=cell, gdim=g, key=k,
                              default=default, twin=(k in ("jump_avg", "normal_mixed") and default and g == 2)))
    for m in ("dS", "dS_h", "dS_v"):
        for which in ("ok", "missing", "double"):
            S.append(dict(name=f"formdata/{m}/{which}", family="formdata", measure=m, which=which))
    return S


def main():
    tier = harness.tier_from_argv()
    t0 = time.time()
    results = harness.run_pool("checks.C17", "run", specs(tier))
    rc = harness.finish(
        PROP, tier, "translation_validation", results, t0,
        functions=["ufl.algorithms.apply_restrictions.{apply_restrictions,RestrictionPropagator}",
                   "ufl.algorithms.formdata.FormData (restriction propagation for interior_facet* integral types)",
                   "ufl.restriction.{PositiveRestricted,NegativeRestricted}"],
        bounds={"integrand skeletons": len(integrands(world('triangle', 2))), "cells": "triangle (R^2, R^3), tetrahedron, interval",
                "modes": "default restriction '+' / propagate only", "form data": "dS, dS_h, dS_v (prism cell)",
                "outside": "non-affine meshes; MeshSequence"},
        assumptions=["continuity: values of H1 coefficients, coordinates, facet quantities and quadrature weight agree "
                     "across the facet (one symbol); gradients and L2/HDiv fields are independent per side",
                     "facet normal flips sign only on affine meshes with gdim == tdim"],
        rule="one obligation per (integrand, cell, mode): z3 proves in == out for all two-sided values; restriction "
             "placement and the required rejections are checked structurally",
        trusted_base=["checks/C17.TwoSided environment", "vlib/denote.py", "z3"],
    )
    sys.exit(rc)


if __name__ == "__main__":
    main()
