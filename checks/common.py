"""Shared skeleton ingredients for the E1 checks."""

from __future__ import annotations

import ufl
from ufl import (
    Argument, Coefficient, Constant, FunctionSpace, Mesh, TestFunction, TrialFunction,
    interval, tetrahedron, triangle,
)

from vlib import elements as el

CELLS = {"interval": interval, "triangle": triangle, "tetrahedron": tetrahedron}


def mesh(cellname="triangle", gdim=None, degree=1):
    cell = CELLS[cellname]
    gdim = gdim or cell.topological_dimension
    return Mesh(el.P(cell, degree, (gdim,)))


def coef(dom, shape=(), degree=2, count=None):
    cell = dom.ufl_cell()
    return Coefficient(FunctionSpace(dom, el.P(cell, degree, shape)), count=count)


def arg(dom, number, shape=(), degree=1, part=None):
    cell = dom.ufl_cell()
    return Argument(FunctionSpace(dom, el.P(cell, degree, shape)), number, part)
