"""C26 — reference cell topology is internally consistent (E3 relation/count tables + z3).

run:    ufl.cell.{Cell, TensorProductCell}: num_sub_entities, sub_entities, sub_entity_types, facets/ridges/
        peaks (and num_*/*_types), topological_dimension, __lt__ — called on every carrier cell / pair
sym:    indices into the tables (cell a, b, c; dimension k)
"""

from __future__ import annotations

import itertools
import sys
import time

import ufl
from ufl.cell import Cell, TensorProductCell, _sub_entity_celltypes

from vlib import harness, solve
from vlib.harness import outcome
from vlib.tables import Tables

PROP = "C26"


def carrier(tier):
    named = [Cell(n) for n in sorted(_sub_entity_celltypes)]
    cells = list(named)
    names = [c.cellname for c in named]
    low = [c for c in named if c.topological_dimension <= 2]
    seen = set(names)
    maxf = 3
    for r in (1, 2, 3):
        for combo in itertools.product(low, repeat=r):
            if sum(c.topological_dimension for c in combo) > 3:
                continue
            if all(c.cellname == "vertex" for c in combo) and r > 2:
                continue
            try:
                tp = TensorProductCell(*combo)
            except Exception:
                continue
            nm = "TP(" + ",".join(c.cellname for c in combo) + ")"
            if nm in seen:
                continue
            seen.add(nm)
            cells.append(tp)
            names.append(nm)
    if tier != "thorough":
        keep = [i for i, n in enumerate(names) if not n.startswith("TP(") or n.count(",") <= 1 or "vertex" in n][:48]
        cells, names = [cells[i] for i in keep], [names[i] for i in keep]
    return cells, names


def run(spec):
    tier = spec["tier"]
    cells, names = carrier(tier)
    TO = Tables(cells, names)          # ordering: named cells and tensor product cells
    res = []
    TO.relation("lt", lambda a, b: a < b)
    TO.relation("eq", lambda a, b: a == b)
    # topology: named cells only (TensorProductCell implements only dimensions 0 and tdim and documents
    # that its facet count is not the real one; NotImplementedError elsewhere: uncovered, not claimed)
    nn = [i for i, c in enumerate(cells) if isinstance(c, Cell)]
    T = Tables([cells[i] for i in nn], [names[i] for i in nn])
    DIMS = tuple(range(-4, 7))
    T.function("tdim", lambda c: c.topological_dimension)
    T.function("nsub", lambda c, k: c.num_sub_entities(k), DIMS)
    T.function("lensub", lambda c, k: len(c.sub_entities(k)), DIMS)
    T.function("subdim_ok", lambda c, k: int(all(s.topological_dimension == k for s in c.sub_entities(k))), DIMS)
    T.function("types_ok", lambda c, k: int(set(map(repr, c.sub_entity_types(k))) == set(repr(s) for s in c.sub_entities(k))), DIMS)
    T.function("nfacets", lambda c: c.num_facets)
    T.function("nridges", lambda c: c.num_ridges)
    T.function("npeaks", lambda c: c.num_peaks)
    T.function("lenfacets", lambda c: len(c.facets))
    T.function("lenridges", lambda c: len(c.ridges))
    T.function("lenpeaks", lambda c: len(c.peaks))
    T.function("facets_dim_ok", lambda c: int(all(s.topological_dimension == c.topological_dimension - 1 for s in c.facets)))
    T.function("ridges_dim_ok", lambda c: int(all(s.topological_dimension == c.topological_dimension - 2 for s in c.ridges)))
    T.function("peaks_dim_ok", lambda c: int(all(s.topological_dimension == c.topological_dimension - 3 for s in c.peaks)))
    T.function("nvert", lambda c: c.num_vertices)
    T.function("nedges", lambda c: c.num_edges)
    T.function("nfaces", lambda c: c.num_faces)
    # Euler characteristic: sum_{d=0}^{tdim} (-1)^d N_d = 1
    T.function("euler", lambda c: sum((-1) ** d * c.num_sub_entities(d) for d in range(c.topological_dimension + 1)))
    # recursive consistency: a facet's own sub-entity counts never exceed the cell's, and every sub-entity of
    # a sub-entity type of dimension d is itself a consistent polytope (Euler) -- table of the facets' euler
    T.function("sub_euler_ok", lambda c: int(all(
        sum((-1) ** d * s.num_sub_entities(d) for d in range(s.topological_dimension + 1)) == 1
        for k in range(c.topological_dimension + 1) for s in c.sub_entities(k))))
    # vertex count of a sub entity is at most the cell's, and the k-entities of a facet are k-entities
    # of the cell in number at most
    T.function("sub_counts_ok", lambda c: int(all(s.num_sub_entities(j) <= c.num_sub_entities(j)
               for k in range(c.topological_dimension + 1) for s in c.sub_entities(k) for j in range(k + 1))))
    AX = {
        # strict total order
        "order/irreflexive": (1, "(lt a a)"),
        "order/asymmetric": (2, "(and (lt a b) (lt b a))"),
        "order/total": (2, "(and (not (= a b)) (not (eq a b)) (not (lt a b)) (not (lt b a)))"),
        "order/transitive": (3, "(and (lt a b) (lt b c) (not (lt a c)))"),
        "order/eq-consistent": (2, "(and (eq a b) (or (lt a b) (lt b a)))"),
        "order/eq-is-identity": (2, "(and (eq a b) (not (= a b)))"),
        "order/no-errors": (2, "(or (lt_err a b) (eq_err a b))"),
        # counts and dimensions
        "euler": (1, "(not (= (euler a) 1))"),
        "sub-entities/euler": (1, "(not (= (sub_euler_ok a) 1))"),
        "sub-entities/counts-bounded": (1, "(not (= (sub_counts_ok a) 1))"),
        "itself": (1, "(not (= (nsub a (tdim a)) 1))"),
        "none-above-tdim": (1, "(not (and (= (nsub a (+ (tdim a) 1)) 0) (= (lensub a (+ (tdim a) 1)) 0)))"),
        "none-below-zero": (1, "(not (and (= (nsub a (- 1)) 0) (= (lensub a (- 1)) 0) (= (nsub a (- 2)) 0) (= (lensub a (- 2)) 0)))"),
        "facets": (1, "(not (and (= (nfacets a) (nsub a (- (tdim a) 1))) (= (lenfacets a) (nfacets a)) (= (facets_dim_ok a) 1)))"),
        "ridges": (1, "(not (and (= (nridges a) (nsub a (- (tdim a) 2))) (= (lenridges a) (nridges a)) (= (ridges_dim_ok a) 1)))"),
        "peaks": (1, "(not (and (= (npeaks a) (nsub a (- (tdim a) 3))) (= (lenpeaks a) (npeaks a)) (= (peaks_dim_ok a) 1)))"),
        "named-counts": (1, "(not (and (= (nvert a) (nsub a 0)) (= (nedges a) (nsub a 1)) (= (nfaces a) (nsub a 2))))"),
    }
    for k in range(0, 4):
        AX[f"sub-entities/dim{k}"] = (1, f"(and (<= {k} (tdim a)) (not (and (= (lensub a {k}) (nsub a {k})) "
                                         f"(= (subdim_ok a {k}) 1) (= (types_ok a {k}) 1) (>= (nsub a {k}) 1))))")
    for name, (nv, neg) in AX.items():
        TT = TO if name.startswith("order/") else T
        st, wit = TT.check(name, nv, neg)
        if st == "proved":
            res.append(outcome(name, "proved", stage="tables", sample=f"{name}: forall indices over {TT.n} cells"))
        elif st == "sat":
            # replay on the real objects
            objs = [TT.names[i] for i in wit]
            res.append(outcome(name, "violated", detail=f"axiom fails for cells {objs}", witness={"cells": objs},
                               sample=name))
        else:
            res.append(outcome(name, "inconclusive", detail="z3 unknown", sample=name))
    # vacuity twin: a deliberately false axiom must be refuted
    st, wit = TO.check("twin", 2, "(not (lt a b))")
    res.append(outcome("order/total#twin", "violated" if st == "sat" else "proved", twin=True))
    res[0]["table_calls"] = T.calls + TO.calls
    res[0]["carrier"] = TO.names
    return res


def main():
    tier = harness.tier_from_argv()
    t0 = time.time()
    results = harness.run_pool("checks.C26", "run", [dict(name="tables", tier=tier)], workers=1)
    calls = results[0].get("table_calls", 0)
    names = results[0].get("carrier", [])
    rc = harness.finish(
        PROP, tier, "model_checking", results, t0,
        functions=["ufl.cell.{Cell,TensorProductCell}.{num_sub_entities,sub_entities,sub_entity_types,facets,ridges,"
                   "peaks,num_*,topological_dimension,__lt__,_lt,__eq__}", "ufl.cell._sub_entity_celltypes"],
        bounds={"carrier": f"{len(names)} cells: all named cells + tensor products of cells of dimension <= 2 with total "
                           "dimension <= 3" + ("" if tier == "thorough" else " (at most 2 factors, or with vertex factors)"),
                "dimensions queried": "-2..5", "outside": "CellSequence; tensor products of dimension > 3"},
        assumptions=["tables are regenerated by calling the real methods on every carrier element / pair each run"],
        rule="axioms (strict total order, Euler characteristic, sub-entity dimension/count consistency, facet/ridge/"
             "peak arithmetic) asserted over symbolic indices into the tables; z3 unsat = holds for the whole carrier",
        trusted_base=["vlib/tables.py", "z3"],
        extra={"states": len(names), "transitions": calls, "traces_validated_against_impl": calls, "exhaustive": True,
               "carrier_cells": names},
    )
    sys.exit(rc)


if __name__ == "__main__":
    main()
