"""C10 — index rewriting passes are value-preserving and hygienic (E1).

run:    expand_indices, remove_component_tensors, renumber_indices (real code)
oracle: [[in]] == [[out]] per component and free-index valuation, same shape and
        free indices; the denotation scopes indices lexically (innermost binder wins)
skeletons: hand-seeded hygiene cases + a grammar over an index pool of size 2-3
        (forces reuse of the same Index object across IndexSum / ComponentTensor
        scopes), variables, zeros with free indices, nested component tensors.
"""

from __future__ import annotations

import random
import sys
import time

import ufl
import ufl.classes as C
from ufl import Coefficient, FunctionSpace, as_tensor, as_ufl, as_vector, conditional, lt, sin, variable, zero
from ufl.classes import ComponentTensor, Indexed, IndexSum, MultiIndex, Zero
from ufl.core.multiindex import FixedIndex, Index

from checks.common import coef, mesh
from vlib import elements as el
from vlib import harness, ring, tv
from vlib.denote import Env
from vlib.harness import outcome

PROP = "C10"

PASSES = ("expand_indices", "remove_component_tensors", "renumber_indices")


def get_pass(name):
    if name == "expand_indices":
        from ufl.algorithms import expand_indices

        return expand_indices
    if name == "remove_component_tensors":
        from ufl.algorithms.remove_component_tensors import remove_component_tensors

        return remove_component_tensors
    if name == "renumber_indices":
        from ufl.algorithms.renumbering import renumber_indices

        return renumber_indices
    raise KeyError(name)


class World:
    def __init__(self, dim=2):
        self.dom = mesh("triangle")
        self.d = dim
        self.f = coef(self.dom, (), count=300)
        self.g = coef(self.dom, (), count=301)
        self.v = coef(self.dom, (dim,), count=302)
        self.w = coef(self.dom, (dim,), count=303)
        self.A = coef(self.dom, (dim, dim), count=304)
        self.B = coef(self.dom, (dim, dim), count=305)
        self.T = coef(self.dom, (dim, dim, dim), count=306)
        self.q = coef(self.dom, (3,), count=307)
        self.M = coef(self.dom, (dim, 3), count=308)
        self.Ssym = Coefficient(FunctionSpace(self.dom, el.sym2(self.dom.ufl_cell())), count=297) if dim == 2 else None
        # a tensor space assembled component by component (no two components share a degree of freedom)
        cc = self.dom.ufl_cell()
        self.Sfull = Coefficient(FunctionSpace(self.dom, el.Symmetric({(0, 0): 0, (0, 1): 1, (1, 0): 2, (1, 1): 3},
                                                                  [el.P(cc, 1) for _ in range(4)])), count=298) if dim == 2 else None
        self.I = [Index(count=9100 + k) for k in range(3)]
        self.fresh = 0


def isum(e, i):
    return IndexSum(e, MultiIndex((i,)))


def ct(e, *ii):
    return ComponentTensor(e, MultiIndex(tuple(ii)))


def idx(e, *ii):
    return Indexed(e, MultiIndex(tuple(FixedIndex(k) if isinstance(k, int) else k for k in ii)))


def seeded(W):
    i, j, k = W.I
    f, g, v, w, A, B, T = W.f, W.g, W.v, W.w, W.A, W.B, W.T
    S = {}
    # index capture situations (same Index object bound in nested scopes); P = Product
    # node built directly (the `*` operator would apply implicit summation itself)
    P = C.Product
    S["capture/ct-sum-reindexed-by-bound"] = isum(P(idx(ct(isum(idx(B, i, j), j), i), j), idx(w, j)), j)
    S["capture/ct-sum-reindexed-fixed"] = idx(ct(isum(idx(B, i, j), j), i), 1)
    S["capture/nested-ct-same-index"] = isum(
        P(idx(ct(P(idx(ct(idx(A, i, j), i), 0), idx(v, j)), j), i), idx(w, i)), i)
    S["capture/sum-inside-ct-same"] = isum(P(idx(ct(P(isum(idx(A, i, i), i), idx(v, j)), j), i), idx(w, i)), i)
    S["capture/ct-inside-ct-reindexed-by-bound"] = isum(
        P(idx(ct(isum(P(idx(ct(idx(A, i, k), k), j), idx(B, i, j)), j), i), j), idx(w, j)), j)
    S["capture/inner-ct-binds-image"] = isum(isum(
        P(idx(ct(idx(ct(P(idx(A, i, j), idx(v, j)), j), k), i), j), idx(B, j, k)), k), j)
    S["capture/two-images-swapped"] = isum(isum(
        P(idx(ct(isum(P(idx(T, i, j, k), idx(w, k)), k), i, j), j, i), idx(A, i, j)), j), i)
    S["shadow/inner-sum-rebinds-ct-index"] = isum(
        P(idx(ct(P(idx(v, i), isum(P(idx(A, i, i), idx(w, i)), i)), i), j), idx(w, j)), j)
    S["shadow/inner-ct-rebinds-ct-index"] = isum(
        P(idx(ct(P(idx(v, i), idx(ct(idx(w, i), i), 0)), i), j), idx(w, j)), j)
    S["capture/chain-ik-ji"] = isum(isum(P(idx(ct(isum(P(idx(A, i, k), idx(B, k, j)), k), i, j), k, i), idx(A, k, i)), i), k)
    S["capture/chain-ij-jk"] = isum(isum(P(idx(ct(isum(P(idx(A, i, k), idx(B, k, j)), k), i, j), j, k), idx(A, j, k)), k), j)
    S["capture/chain-three"] = isum(isum(isum(P(idx(ct(isum(P(idx(T, i, j, k), idx(w, k)), k), i, j), k, i), idx(T, k, i, j)), j), i), k)
    if W.Ssym is not None:
        # a symmetric tensor-valued coefficient next to a plain one of the same shape (component canonicalisation per space)
        Sy = W.Ssym
        S["sym/sym-then-plain"] = isum(isum(P(idx(Sy, i, j), idx(A, i, j)), j), i)
        S["sym/plain-then-sym"] = isum(isum(P(idx(A, i, j), idx(Sy, j, i)), j), i)
        S["sym/fixed"] = P(idx(Sy, 1, 0), idx(A, 1, 0)) + P(idx(Sy, 0, 1), idx(B, 1, 0))
        Sf = W.Sfull
        S["sym/sym-then-full"] = isum(isum(P(idx(Sy, i, j), idx(Sf, i, j)), j), i)
        S["sym/full-then-sym"] = isum(isum(P(idx(Sf, j, i), idx(Sy, i, j)), j), i)
        S["sym/fixed-two-spaces"] = P(idx(Sy, 1, 0), idx(Sf, 1, 0)) + P(idx(Sf, 0, 1), idx(Sy, 0, 1))
    S["shadow/sum-twice-same-index"] = P(isum(idx(v, i), i), isum(idx(w, i), i))
    S["shadow/sum-in-sum-same-index"] = isum(P(idx(v, i), isum(idx(A, i, i), i)), i)
    S["shadow/ct-rebinding-outer"] = isum(P(isum(P(idx(ct(idx(A, i, j), i), j), idx(v, j)), j), idx(w, i)), i)
    S["shadow/ct-indexed-by-own-index"] = isum(isum(idx(ct(P(idx(v, i), idx(w, j)), i), i), j), i)
    S["swap/ct-transpose-indexed"] = isum(isum(P(idx(ct(idx(A, i, j), j, i), i, j), idx(B, i, j)), j), i)
    S["swap/ct-transpose-fixed"] = idx(ct(idx(A, i, j), j, i), 0, 1)
    S["ct/indexed-by-other-pool-index"] = isum(P(idx(ct(P(idx(v, i), as_ufl(2)), i), j), idx(w, j)), j)
    S["ct/partial-binding"] = isum(isum(P(idx(ct(idx(A, i, j), j), k), idx(B, i, k)), k), i)
    S["ct/nested-two-levels"] = isum(P(isum(
        P(idx(ct(P(idx(ct(idx(A, i, j), j), k), idx(w, k)), k), j), idx(v, j)), j), idx(v, i)), i)
    # variables
    vv = variable(v)
    vA = variable(A)
    vf = variable(f * g)
    S["var/vector-two-components"] = vv[0] + vv[1]
    S["var/vector-product"] = vv[0] * vv[1] + vv[1] * vv[1]
    S["var/tensor-transposed-use"] = vA[0, 1] - vA[1, 0]
    S["var/under-sum"] = isum(P(idx(vv, i), idx(w, i)), i)
    S["var/under-double-sum"] = isum(isum(P(idx(vA, i, j), idx(vA, j, i)), j), i)
    S["var/scalar-shared"] = vf * vf + sin(vf)
    S["var/nested"] = variable(vv[0] * f) * vv[1]
    S["var/in-ct"] = isum(P(idx(ct(P(idx(vv, i), as_ufl(2)), i), j), idx(vv, j)), j)
    # zeros with free indices
    Zi = Zero((), (i.count(),), (W.d,))
    Zij = Zero((), tuple(sorted((i.count(), j.count()))), (W.d, W.d))
    S["zero/free-index-in-sum"] = isum(Zi + idx(v, i), i)
    S["zero/free-index-product"] = isum(isum(Zij + P(idx(A, i, j), idx(B, i, j)), j), i)
    S["zero/in-ct"] = isum(P(idx(ct(Zi + idx(v, i), i), j), idx(w, j)), j)
    S["zero/conditional-branch"] = isum(P(conditional(lt(f, g), Zi, idx(v, i)), idx(w, i)), i)
    # free indices of different dimensions (2 and 3), in both count orders
    q, M = W.q, W.M
    for tag, (a, b) in (("ij", (i, j)), ("ji", (j, i)), ("ik", (i, k)), ("ki", (k, i))):
        cs = sorted([(a.count(), W.d), (b.count(), 3)])
        Zab = Zero((), tuple(c for c, _ in cs), tuple(d for _, d in cs))
        S[f"mixdim/zero-cond-true/{tag}"] = isum(isum(
            P(conditional(lt(f, g), Zab, P(idx(v, a), idx(q, b))), idx(M, a, b)), b), a)
        S[f"mixdim/zero-cond-false/{tag}"] = isum(isum(
            P(conditional(lt(f, g), P(idx(v, a), idx(q, b)), Zab), idx(M, a, b)), b), a)
        S[f"mixdim/zero-sum/{tag}"] = isum(isum(P(Zab + idx(M, a, b), P(idx(q, b), idx(v, a))), a), b)
        S[f"mixdim/ct-of-cond/{tag}"] = isum(isum(P(idx(ct(conditional(lt(f, g), Zab, idx(M, a, b)), b, a), b, a),
                                                    idx(M, a, b)), b), a)
    # plain language-level constructions (fresh indices made by the public API)
    S["api/dot-chain"] = ufl.dot(ufl.dot(A, B), v)[0]
    S["api/trace-of-product"] = ufl.tr(A * B)
    S["api/slices"] = ufl.dot(A[0, :], B[:, 1])
    S["api/transpose-sum"] = ufl.inner(A.T + B, as_tensor(A[i, j], (j, i)))
    S["api/outer-contract"] = ufl.inner(ufl.outer(v, w), A)
    S["api/division-power"] = (v[i] * w[i]) / (f**2 + 1)
    S["api/list-tensor"] = ufl.dot(as_vector([v[1], v[0] * f]), w)
    S["api/list-tensor-indexed"] = isum(P(idx(as_vector([idx(v, i), idx(w, i)]), 0), idx(w, i)), i)
    S["api/conditional"] = conditional(lt(v[i] * w[i], f), v[0], isum(idx(A, i, i), i))
    S["api/math"] = sin(v[i] * v[i]) * ufl.exp(A[i, i])
    S["api/abs-sqrt"] = abs(v[i] * w[i]) + ufl.sqrt(f * f + 1)
    S["api/T-contract"] = T[i, i, j] * v[j] + T[i, j, j] * w[i]
    return S


# -- random grammar over an index pool --------------------------------------------------


def gen_scalar(W, rng, depth, free, reuse):
    """A scalar expression whose free indices are exactly the set `free` (Index objects).
    reuse=True lets binders pick pool indices that are already in scope."""
    pool = W.I
    if depth == 0:
        fr = list(free)
        if not fr:
            return rng.choice([W.f, W.g, idx(W.v, rng.randrange(W.d)), idx(W.A, 0, 1), as_ufl(2)])
        if len(fr) == 1:
            (a,) = fr
            return rng.choice([idx(W.v, a), idx(W.w, a), idx(W.A, a, rng.randrange(W.d)), idx(W.A, 0, a),
                               idx(W.T, a, 1, 0)])
        if len(fr) == 2:
            a, b = fr
            return rng.choice([idx(W.A, a, b), idx(W.B, b, a), C.Product(idx(W.v, a), idx(W.w, b)),
                               idx(W.T, a, 0, b)])
        a, b, c = fr[:3]
        return idx(W.T, a, b, c)
    kind = rng.choice(["sum", "prod", "isum", "ct", "unary", "leaf", "div", "cond", "var"])
    fr = set(free)
    if kind == "leaf":
        return gen_scalar(W, rng, 0, free, reuse)
    if kind == "sum":
        return gen_scalar(W, rng, depth - 1, free, reuse) + gen_scalar(W, rng, depth - 1, free, reuse)
    if kind == "prod":
        fl = list(fr)
        rng.shuffle(fl)
        cut = rng.randrange(len(fl) + 1)
        return C.Product(gen_scalar(W, rng, depth - 1, set(fl[:cut]), reuse),
                         gen_scalar(W, rng, depth - 1, set(fl[cut:]), reuse))
    if kind == "div":
        return gen_scalar(W, rng, depth - 1, free, reuse) / (W.f * W.f + 1)
    if kind == "unary":
        e = gen_scalar(W, rng, depth - 1, free, reuse)
        return rng.choice([lambda x: -x, lambda x: x**2, sin, lambda x: 3 * x])(e)
    if kind == "cond":
        return conditional(lt(W.f, W.g), gen_scalar(W, rng, depth - 1, free, reuse),
                           gen_scalar(W, rng, depth - 1, free, reuse))
    if kind == "var":
        if fr:
            return gen_scalar(W, rng, depth - 1, free, reuse)
        return variable(gen_scalar(W, rng, depth - 1, free, reuse))
    if reuse:
        # pool index not currently free here: it may well be bound by an enclosing scope
        cands = [p for p in pool if p not in fr]
        if not cands:
            return gen_scalar(W, rng, depth - 1, free, reuse)
        b = rng.choice(cands)
    else:
        W.fresh += 1
        b = Index(count=9200 + W.fresh)
    if kind == "isum":
        return isum(gen_scalar(W, rng, depth - 1, fr | {b}, reuse), b)
    if kind == "ct":
        # (ct of body over b)[ix] where ix is a fixed index, or a pool index (possibly b itself)
        body = gen_scalar(W, rng, depth - 1, fr | {b}, reuse)
        t = ct(body, b)
        choices = [0, W.d - 1] + list(fr)
        ix = rng.choice(choices)
        return idx(t, ix)
    raise AssertionError


def gen_closed(W, rng, depth, reuse):
    return gen_scalar(W, rng, depth, set(), reuse)


def build(spec):
    W = World()
    if spec["family"] == "seed":
        e = seeded(W)[spec["key"]]
        if spec["key"].startswith("api/"):
            # compound operators are lowered first (that pass is C06's subject)
            from ufl.algorithms.apply_algebra_lowering import apply_algebra_lowering

            e = apply_algebra_lowering(e)
        return e
    rng = random.Random(spec["seed"])
    e = gen_closed(W, rng, spec["depth"], spec["reuse"])
    # constructor shortcuts (C05's subject) may fold the skeleton to something that is
    # not a closed scalar expression any more; those are not obligations of this check
    if not isinstance(e, C.Expr) or e.ufl_shape != () or e.ufl_free_indices != ():
        raise ValueError("skeleton is not a closed scalar expression")
    return e


def run(spec):
    try:
        e = build(spec)
    except Exception as ex:  # the grammar may hit constructor checks; not an obligation
        return outcome(spec["name"], "rejected", detail=f"skeleton not constructible: {type(ex).__name__}")
    r0 = repr(e)
    fn = get_pass(spec["pass"])
    try:
        out = fn(e)
    except Exception as ex:
        if spec.get("may_raise"):
            return outcome(spec["name"], "rejected", detail=f"pass raised {type(ex).__name__}: {ex}",
                           sample=str(e)[:300])
        return outcome(spec["name"], "violated", detail=f"pass raised {type(ex).__name__}: {ex}"[:300],
                       sample=str(e)[:300], witness={"exception": repr(ex)[:300]})
    res = [tv.compare(spec["name"], e, out, Env(), timeout=30, in_repr=r0)]
    if spec["pass"] == "remove_component_tensors" and res[0]["status"] == "proved":
        # the pass promises that no Indexed(ComponentTensor) remains
        from ufl.corealg.traversal import unique_pre_traversal

        for n in unique_pre_traversal(out):
            if isinstance(n, Indexed) and isinstance(n.ufl_operands[0], ComponentTensor):
                res[0]["note"] = "Indexed(ComponentTensor) left in output"
    if spec["pass"] == "expand_indices" and res[0]["status"] == "proved":
        from ufl.corealg.traversal import unique_pre_traversal

        for n in unique_pre_traversal(out):
            if isinstance(n, (IndexSum, ComponentTensor)) or (
                    isinstance(n, MultiIndex) and any(isinstance(q, Index) for q in n)):
                res[0] = outcome(spec["name"], "violated", detail="free Index left after expand_indices",
                                 sample=str(out)[:300], witness={"structural": "free index"})
                break
    if spec.get("twin") and out.ufl_shape == () and not out.ufl_free_indices:
        ring.reset()
        res.append(tv.compare(spec["name"] + "#twin", e, out + W_one(), Env(), timeout=30, twin=True))
    return res


def W_one():
    return as_ufl(1)


def specs(tier):
    S = []
    W = World()
    keys = list(seeded(W).keys())
    for p in PASSES:
        for k in keys:
            S.append(dict(name=f"{p}/seed/{k}", family="seed", key=k, **{"pass": p},
                          twin=(k in ("api/dot-chain", "var/under-sum", "zero/in-ct"))))
    seed0 = int(__import__("os").environ.get("VERIF_SEED", "0") or 0)
    n = 60 if tier == "quick" else 700
    for p in PASSES:
        for r in range(n):
            depth = 2 + (r % 3)
            # index reuse across scopes is exercised at random for every pass (for remove_component_tensors since
            # the capture defect of IndexReplacer was repaired, see known_findings.json)
            reuse = True
            S.append(dict(name=f"{p}/rand/seed={seed0}/n={r}/depth={depth}", family="rand", seed=seed0 * 100003 + r,
                          depth=depth, reuse=reuse, **{"pass": p}))
    return S


def main():
    tier = harness.tier_from_argv()
    t0 = time.time()
    results = harness.run_pool("checks.C10", "run", specs(tier))
    rc = harness.finish(
        PROP, tier, "translation_validation", results, t0,
        functions=["ufl.algorithms.expand_indices.expand_indices (IndexExpander, Transformer.reuse_variable)",
                   "ufl.algorithms.remove_component_tensors.remove_component_tensors (IndexRemover, IndexReplacer)",
                   "ufl.algorithms.renumbering.renumber_indices (IndexRelabeller)"],
        bounds={"hand-seeded skeletons": len(seeded(World())), "random skeletons per pass": 60 if tier == "quick" else 700,
                "grammar depth": "2-4", "index pool": 3, "tensor dims": 2, "rank": "<= 3",
                "outside": "deeper nesting; forms (integrals); index reuse at random for remove_component_tensors"},
        assumptions=["reals as reals", "division where the divisor is non-zero",
                     "lexical scoping of indices (innermost binder wins) is the reference semantics"],
        rule="seeded hygiene cases + VERIF_SEED-driven grammar samples; each obligation = one (pass, skeleton); z3 "
             "proves value equality for all field values; distinct = distinct (pass, skeleton)",
        trusted_base=["vlib/denote.py", "vlib/ring.py", "vlib/terms.py", "z3"],
    )
    sys.exit(rc)


if __name__ == "__main__":
    main()
