"""C01 — form preprocessing preserves the meaning of every integral (E1).

run:    ufl.algorithms.compute_form_data over combinations of do_apply_function_pullbacks,
        do_apply_integral_scaling, do_apply_geometry_lowering, do_cancel_jacobian_products,
        do_remove_component_tensors, complex_mode (the whole pass pipeline, FormData rewriting)
oracle: per (integral type, subdomain): sum of the preprocessed integrands (reference-frame data)
        == sum of [[original integrand]]_phys * scale, where physical values/gradients are *defined*
        from reference jets by the element's declared push-forward and the affine cell map
        (vlib/geometry.py) and scale = |detJ| w (dx), sqrt(Gram det of the facet Jacobian) w (ds, dS('+'))
        when integral scaling is requested, else 1.  A raise is an accepted outcome.
"""

from __future__ import annotations

import itertools
import sys
import time

import ufl
import ufl.algorithms.check_arities
import ufl.algorithms.comparison_checker
import ufl.classes as C
from ufl import (CellVolume, Circumradius, Coefficient, Constant, FacetNormal, FunctionSpace, SpatialCoordinate,
                 TestFunction, TrialFunction, avg, conditional, conj, cos, curl, det, div, dot, dS, ds, dx, exp,
                 grad, inner, jump, lt, sin, sqrt, sym, tr)

from checks.common import mesh
from vlib import denote, elements as el
from vlib import harness, ring, solve
from vlib.denote import Denoter
from vlib.geometry import GeomEnv
from vlib.harness import outcome
from vlib.ring import DenotationError

PROP = "C01"

OPTS = ("do_apply_function_pullbacks", "do_apply_integral_scaling", "do_apply_geometry_lowering",
        "do_cancel_jacobian_products", "do_remove_component_tensors")


def the_forms(dom):
    cell = dom.ufl_cell()
    g, t = dom.geometric_dimension, dom.topological_dimension
    P1, P2 = el.P(cell, 1), el.P(cell, 2)
    V1, V2 = FunctionSpace(dom, P1), FunctionSpace(dom, P2)
    Vv = FunctionSpace(dom, el.P(cell, 1, (g,)))
    v, u = TestFunction(V1), TrialFunction(V1)
    vv, uu = TestFunction(Vv), TrialFunction(Vv)
    f = Coefficient(V2, count=1000)
    w = Coefficient(Vv, count=1001)
    c = Constant(dom, count=1002)
    x = SpatialCoordinate(dom)
    n = FacetNormal(dom)
    F = {
        "mass": u * conj(v) * dx,
        "poisson": inner(grad(u), grad(v)) * dx + f * u * conj(v) * dx,
        "load": f * conj(v) * dx + c * conj(v) * ds,
        "poisson_coef": f * inner(grad(u), grad(v)) * dx + c * u * conj(v) * ds,
        "convection": dot(w, grad(u)) * conj(v) * dx,
        "elasticity": inner(sym(grad(uu)), sym(grad(vv))) * dx + inner(uu, vv) * ds,
        "nonlinear": (1 + f * f) * inner(grad(f), grad(v)) * dx + sin(f) * conj(v) * dx,
        "conditional": conditional(lt(f, c), f * f, c) * conj(v) * dx,
        # (Circumradius on immersed cells: lowered and defining forms differ by nested radicals whose
        #  equality needs sign reasoning z3 does not finish; that quantity is C07's, via squared predicates)
        "geometry": CellVolume(dom) * x[0] * conj(v) * dx
        + (Circumradius(dom) if g == t == 2 else ufl.FacetArea(dom)) * f * conj(v) * (dx if g == t == 2 else ds),
        "coordinates": dot(x, x) * f * conj(v) * dx + x[g - 1] * conj(v) * ds,
        "facet_normal": dot(grad(f), n) * conj(v) * ds + dot(w, n) * conj(v) * ds,
        "interior_facet": jump(u) * conj(jump(v)) * dS + avg(f) * u("+") * conj(v("-")) * dS,
        "interior_grad": inner(jump(grad(u)), jump(grad(v))) * dS,
        "interior_normal": f("+") * dot(w("-"), n("-")) * conj(v("+")) * dS + dot(jump(w), n("+")) * conj(avg(v)) * dS,
        "hessian": inner(grad(grad(u)), grad(grad(v))) * dx,
        "functional": f * f * dx + dot(w, w) * ds,
        "det_tr": det(grad(w)) * conj(v) * dx + tr(grad(w)) * f * conj(v) * dx,
        "sqrt_exp": sqrt(1 + f * f) * exp(-f) * conj(v) * dx,
    }
    F["explicit_JK"] = inner(dot(dot(C.Jacobian(dom), C.JacobianInverse(dom)), w), vv) * dx \
        + tr(dot(C.JacobianInverse(dom), C.Jacobian(dom))) * f * conj(vv[0]) * dx
    # Piola-mapped and composite elements
    RT, N1 = FunctionSpace(dom, el.RT(cell)), FunctionSpace(dom, el.N1(cell))
    s, r = TestFunction(RT), TrialFunction(RT)
    sig = Coefficient(RT, count=1003)
    F["hdiv_mass"] = inner(r, s) * dx
    F["hdiv_divdiv"] = div(r) * conj(div(s)) * dx
    F["hdiv_coef"] = inner(sig, s) * dx + div(sig) * conj(div(s)) * f * dx
    F["hdiv_flux"] = dot(sig, n) * conj(v) * ds
    q, p = TestFunction(N1), TrialFunction(N1)
    F["hcurl_mass"] = inner(p, q) * dx
    if g == t and t >= 2:
        F["hcurl_curlcurl"] = inner(curl(p), curl(q)) * dx
    M = FunctionSpace(dom, el.Mixed([el.RT(cell), el.DGL2(cell)]))
    tau, qq = ufl.TestFunctions(M)
    sg, pp = ufl.TrialFunctions(M)
    F["mixed_poisson"] = (inner(sg, tau) + conj(div(tau)) * pp + div(sg) * conj(qq)) * dx
    TH = FunctionSpace(dom, el.Mixed([el.P(cell, 2, (g,)), el.P(cell, 1)]))
    vq, uq = TestFunction(TH), TrialFunction(TH)
    vel_t, pr_t = ufl.split(vq)
    vel, pr = ufl.split(uq)
    F["stokes"] = (inner(grad(vel), grad(vel_t)) - pr * conj(div(vel_t)) + div(vel) * conj(pr_t)) * dx
    if t == 2 and g == 2:
        S = FunctionSpace(dom, el.sym2(cell, (1, 2, 1)))
        st = Coefficient(S, count=1004)
        F["symmetric"] = inner(st, grad(vv)) * dx + st[0, 1] * st[1, 0] * conj(vv[0]) * dx
        Rg = FunctionSpace(dom, el.Regge(cell))
        rg = Coefficient(Rg, count=1005)
        F["regge"] = inner(rg, ufl.outer(w, w)) * conj(v) * dx
        H = FunctionSpace(dom, el.HHJ(cell))
        hh = Coefficient(H, count=1006)
        F["hhj"] = inner(hh, sym(grad(vv))) * dx
        SH = FunctionSpace(dom, el.Symmetric({(0, 0): 0, (0, 1): 1, (1, 0): 1, (1, 1): 2},
                                             [el.P(cell, 1), el.DGL2(cell), el.P(cell, 2)]))
        sh_ = Coefficient(SH, count=1007)
        F["sym_hetero"] = inner(sh_, grad(vv)) * dx
    NT = FunctionSpace(dom, el.FE("N1t", cell, 1, (2, t), ufl.pullback.covariant_piola, ufl.sobolevspace.HCurl))
    nt = Coefficient(NT, count=1008)
    F["n1_rank2"] = inner(nt[0, :], w) * conj(v) * dx + inner(nt[1, :], grad(v)) * dx
    return F


def applies(orig, key_id):
    sid = orig.subdomain_id()
    if sid == "everywhere":
        return True
    ids = sid if isinstance(sid, tuple) else (sid,)
    kid = key_id if isinstance(key_id, tuple) else (key_id,)
    return any(i in kid for i in ids)


def scale_for(env, itype, do_scale):
    if not do_scale:
        return env.const(1)
    qw = env.rsym("qw")
    t = env.tdim
    if itype == "cell":
        return ring.sqrtval(_gramdet(env.J())) * qw if t > 0 else env.const(1)
    if itype.startswith("exterior_facet"):
        return env.pseudo_det(env.FJ()) * qw if t > 1 else env.const(1)
    if itype.startswith("interior_facet"):
        return env.pseudo_det(env.FJ("+")) * qw if t > 1 else env.const(1)
    raise DenotationError(f"scale for {itype}")


def _gramdet(M):
    G = denote.gram(M)
    return denote.det(G) if len(G) > 1 else G[0][0]


def prelower(e):
    """Original integrands contain compound operators / derivatives; the oracle denotes them directly
    (Div, Curl, Grad of expressions, Determinant, ... all have defining denotations)."""
    return e


def run(spec):
    from ufl.algorithms import compute_form_data

    name = spec["name"]
    dom = mesh(spec["cell"], spec["gdim"])
    F = the_forms(dom).get(spec["form"])
    if F is None:
        return outcome(name, "rejected", detail="form not defined on this cell")
    opts = dict(zip(OPTS, spec["opts"]))
    cm = spec["complex"]
    if spec["form"] == "interior_normal" and not opts["do_apply_geometry_lowering"] and spec["gdim"] == dom.topological_dimension:
        # with the normal left un-lowered on a flat mesh, restriction propagation may use n('-') = -n('+'), which
        # holds by mesh conformity; this check's two-sided environment has independent cells (C17's has conformity)
        return outcome(name, "rejected", detail="needs mesh conformity of the two cells (covered by C17's environment)")
    r0 = repr(F)
    sample = f"{spec['form']} on {spec['cell']} in R^{spec['gdim']} opts={''.join('1' if o else '0' for o in spec['opts'])} " \
             f"complex={cm}"
    try:
        fd = compute_form_data(F, complex_mode=cm, do_estimate_degrees=True, **opts)
    except (Exception, ufl.algorithms.check_arities.ArityMismatch,
            ufl.algorithms.comparison_checker.ComplexComparisonError) as ex:
        # "either does this or raises": raising is an accepted outcome
        return outcome(name, "rejected", detail=f"compute_form_data raised {type(ex).__name__}: {str(ex)[:120]}",
                       sample=sample)
    if repr(F) != r0:
        return outcome(name, "inconclusive", detail="input form repr changed", sample=sample)
    res = []
    for k, itd in enumerate(fd.integral_data):
        ring.reset()
        itype = itd.integral_type
        if itype.startswith("interior_facet"):
            facets = {"+": spec.get("facet", 0), "-": spec.get("facet_minus", 1)}
            env = GeomEnv(spec["cell"], spec["gdim"], mode="J", complex_mode=cm, facets=facets, reference_fields=True)
        else:
            env = GeomEnv(spec["cell"], spec["gdim"], mode="J", complex_mode=cm, facet=spec.get("facet", 0),
                          reference_fields=True)
        den = Denoter(env)
        oname = f"{name}/{itype}:{itd.subdomain_id}"
        try:
            sc = scale_for(env, itype, opts["do_apply_integral_scaling"])
            want = None
            for orig in F.integrals():
                if orig.integral_type() != itype or not applies(orig, itd.subdomain_id):
                    continue
                vI = den.ev(orig.integrand(), (), {}, (), None) * sc
                want = vI if want is None else want + vI
            got = None
            for itg in itd.integrals:
                e = itg.integrand()
                if e.ufl_shape != () or e.ufl_free_indices:
                    raise DenotationError("preprocessed integrand is not a closed scalar")
                vO = den.ev(e, (), {}, (), None)
                got = vO if got is None else got + vO
            if want is None:
                want = env.const(0)
            if got is None:
                got = env.const(0)
            diffs = solve.flatten_diffs([(want, got)])
        except DenotationError as ex:
            res.append(outcome(oname, "inconclusive", detail=f"denotation: {ex}", sample=sample))
            continue
        r = solve.prove_all_zero(diffs, timeout=spec.get("timeout", 120), label=oname)
        ok, bad = solve.discharge_lemmas()
        st = r.status if not (r.status == "proved" and bad) else "inconclusive"
        res.append(outcome(oname, st, stage=r.stage, detail=(r.detail or "") + (" integrands differ" if st == "violated" else ""),
                           witness=r.witness, sample=sample + " :: " + str(itd.integrals[0].integrand())[:160]))
        if spec.get("twin") and k == 0:
            r2 = solve.prove_all_zero(solve.flatten_diffs([(want * env.const(2), got)]), timeout=60)
            res.append(outcome(oname + "#twin", r2.status, twin=True))
    if not res:
        res.append(outcome(name, "proved", stage=0, detail="no integral data (form reduced to nothing)", sample=sample))
    return res


def specs(tier):
    S = []
    thorough = tier == "thorough"
    all_opts = list(itertools.product((False, True), repeat=5))
    # option sets where dependent options make sense are all kept: the pipeline decides what they mean
    quick_opts = [o for o in all_opts if o in (
        (False, False, False, False, False), (True, False, False, False, False), (True, True, False, False, False),
        (True, True, True, False, False), (True, True, True, True, False), (True, True, True, True, True),
        (True, True, True, False, True), (False, True, True, False, False), (False, False, True, False, False),
        (True, False, True, True, True), (False, True, False, False, True), (False, False, True, True, True))]
    cells = [("triangle", 2), ("triangle", 3), ("tetrahedron", 3), ("interval", 1), ("interval", 2)]
    forms = list(the_forms(mesh("triangle", 2)))
    heavy = {"hessian", "elasticity", "stokes", "det_tr", "interior_grad", "hhj", "regge"}
    for cell, g in cells:
        avail = set(the_forms(mesh(cell, g)))
        for fk in forms:
            if fk not in avail:
                continue
            if cell == "tetrahedron" and not thorough and fk not in ("mass", "poisson", "hdiv_divdiv", "hcurl_curlcurl",
                                                                      "geometry", "facet_normal", "hdiv_flux"):
                continue
            if cell == "interval" and fk in ("hcurl_mass", "elasticity", "stokes", "det_tr", "hdiv_flux", "interior_grad",
                                             "hessian"):
                if not thorough:
                    continue
            if (cell, g) == ("triangle", 3) and not thorough and fk in heavy:
                continue
            for cm in (False, True):
                if cm and not thorough and fk not in ("mass", "poisson", "hdiv_mass", "interior_facet", "conditional", "load"):
                    continue
                if cm and fk in heavy | {"hdiv_divdiv", "hdiv_coef", "mixed_poisson", "hcurl_curlcurl"} and (cell, g) != ("triangle", 2):
                    continue
                opts_list = all_opts if (thorough or fk in ("poisson", "hdiv_divdiv") and (cell, g) == ("triangle", 2)
                                         and not cm) else quick_opts
                if fk in heavy and not thorough:
                    opts_list = [o for o in quick_opts if o in ((False,) * 5, (True, True, True, False, False),
                                                                (True, True, True, True, True))]
                for o in opts_list:
                    facets = [0] if not thorough else list(range({"interval": 2, "triangle": 3, "tetrahedron": 4}[cell]))
                    if fk in ("facet_normal", "hdiv_flux", "interior_facet", "interior_normal") and (cell, g) == ("triangle", 2):
                        facets = [0, 1, 2]
                    for fct in facets:
                        S.append(dict(name=f"{fk}/{cell}{g}/{'c' if cm else 'r'}/{''.join('1' if x else '0' for x in o)}/f{fct}",
                                      form=fk, cell=cell, gdim=g, complex=cm, opts=o, facet=fct,
                                      facet_minus=(fct + 1) % ({"interval": 2, "triangle": 3, "tetrahedron": 4}[cell]),
                                      timeout=120, task_timeout=400,
                                      twin=(fk in ("poisson", "hdiv_divdiv") and o == (True, True, True, False, False)
                                            and (cell, g) == ("triangle", 2) and not cm and fct == 0)))
    return S


def main():
    tier = harness.tier_from_argv()
    t0 = time.time()
    results = harness.run_pool("checks.C01", "run", specs(tier))
    rej = sum(1 for r in results if r["status"] == "rejected")
    rc = harness.finish(
        PROP, tier, "translation_validation", results, t0,
        functions=["ufl.algorithms.compute_form_data.{compute_form_data,preprocess_form,attach_estimated_degrees}",
                   "apply_algebra_lowering, apply_derivatives, apply_function_pullbacks, apply_integral_scaling, "
                   "apply_geometry_lowering, cancel_jacobian_products, remove_component_tensors, remove_complex_nodes, "
                   "apply_restrictions, group_form_integrals/build_integral_data, FormData"],
        bounds={"forms": sorted(the_forms(mesh('triangle', 2))), "cells": "interval (R^1,R^2), triangle (R^2,R^3), tetrahedron",
                "options": "2^5 lowering options (all 32 for two forms, 12 representative sets for the rest in quick; all in "
                           "thorough) x real/complex", "facets": "local facet 0 (all facets for the facet forms on the triangle; "
                           "all in thorough); dS: sides on different local facets",
                "outside": "non-affine cells, MeshSequence, CoordinateDerivative, BaseFormOperators, default-restriction "
                           "logic (interior-facet forms here restrict every terminal explicitly; see C17)"},
        assumptions=["affine simplex cell, J full rank; physical fields defined from reference jets by the declared "
                     "push-forward; derivative order <= 2", "scale = |detJ| w / sqrt(Gram det FJ) w as documented",
                     "reals as reals; radicals by side facts"],
        rule="one obligation per (form, cell, gdim, mode, option set, facet) and integral data entry; z3 proves the "
             "preprocessed integrand sum equals original integrand x scale for all reference jets and all J",
        trusted_base=["vlib/geometry.py (push-forward, cell model, reference tables)", "vlib/denote.py", "z3"],
        extra={"option_sets_where_preprocessing_raised": rej},
    )
    sys.exit(rc)


if __name__ == "__main__":
    main()
