"""C16 — lhs/rhs/system/action/adjoint/energy_norm/functional respect the algebra (E1).

run:    ufl.formoperators.{lhs,rhs,system,functional,action,adjoint,energy_norm} ->
        ufl.algorithms.formtransformations.{PartExtracter,compute_form_*}
oracle: per (integral type, subdomain):  [[F]] == [[lhs F]] - [[rhs F]],  lhs bilinear / rhs linear and
        independent of the trial function (solver-decided), functional(F) == F at zero arguments,
        action(a, f) == a[u := f], adjoint(a) == conj(a[v <-> u]), energy_norm(a, f) == a[v := f, u := f]
"""

from __future__ import annotations

import sys
import time

import ufl
from ufl import (action, adjoint, avg, conditional, conj, div, dot, dS, ds, dx, energy_norm, functional, grad, inner,
                 jump, lhs, lt, real, rhs, sin, system)

from checks.common import arg, coef, mesh
from vlib import elements as el
from vlib import forms, harness, ring, solve
from vlib.denote import Denoter, Env
from vlib.harness import outcome
from vlib.ring import DenotationError

PROP = "C16"


def world(cell="triangle"):
    dom = mesh(cell)
    g = dom.geometric_dimension
    W = dict(dom=dom, g=g, v=arg(dom, 0, (), 1), u=arg(dom, 1, (), 1), vv=arg(dom, 0, (g,), 1), uu=arg(dom, 1, (g,), 1),
             f=coef(dom, (), count=900), k=coef(dom, (), count=901), w=coef(dom, (g,), count=902),
             q=coef(dom, (), count=903), z=coef(dom, (g,), count=904))
    V = ufl.FunctionSpace(dom, el.P(dom.ufl_cell(), 1))
    MS = ufl.MixedFunctionSpace(V, V)
    W["v0"], W["v1"] = ufl.TestFunctions(MS)
    W["u0"], W["u1"] = ufl.TrialFunctions(MS)
    return W


def the_forms(W):
    v, u, vv, uu, f, k, w = W["v"], W["u"], W["vv"], W["uu"], W["f"], W["k"], W["w"]
    v0, v1, u0, u1 = W["v0"], W["v1"], W["u0"], W["u1"]
    return {
        "mass_load": u * v * dx - f * v * dx,
        "poisson": inner(grad(u), grad(v)) * dx - f * v * dx + k * v * ds,
        "factored": (u - f) * v * dx,
        "factored_vec": inner(uu - w, vv) * dx + inner(div(uu) - f, div(vv)) * dx(1),
        "grad_of_sum": dot(grad(u * k + f), grad(v)) * dx,
        "nested_sum": ((u + f) * k + (f - u)) * v * dx + (u * f + f * f) * v * ds,
        "restricted_sum": (u * v + f * v)("+") * dS,
        "jump_avg": jump(u) * avg(v) * dS - avg(f) * jump(v) * dS + (u("+") - f("+")) * v("-") * dS,
        "conditional": conditional(lt(f, k), u, f) * v * dx,
        "conditional_same": conditional(lt(f, k), u * f, u * k) * v * dx + conditional(lt(f, k), f, k) * v * dx,
        "sum_in_product": (k * u * v + f * v) * dx,
        "division": (u + f) / (1 + k * k) * v * dx,
        "indexed": (uu[0] + w[1]) * vv[1] * dx + dot(uu, vv) * ds,
        "subdomains": u * v * dx(1) + f * v * dx(2) + (u + f) * v * dx((1, 2)) + k * u * v * ds(3),
        "three_parts": u * v * dx + f * v * dx + f * k * dx,
        "mixed_parts": u0 * v0 * dx + u1 * v1 * dx + f * u0 * v1 * dx - f * v0 * dx - k * v1 * dx,
        "only_bilinear": f * inner(grad(u), grad(v)) * dx,
        "only_linear": f * v * dx + k * v * ds,
        "variable_wrapped": ufl.variable(u + f) * v * dx,
        # two copies of one form made with replace(): the Variable nodes share their label but not their content
        "theta_variable": (lambda F0: 0.5 * F0 + 0.5 * ufl.replace(F0, {k: W["q"], f: k}))(ufl.variable(k * u - f) * v * dx),
        "theta_variable_ds": (lambda F0: F0 + 2 * ufl.replace(F0, {k: W["q"]}))(ufl.variable(k * u) * v * dx + ufl.variable(k * f) * v * ds),
        "neg": -(u * v - f * v) * dx,
    }


def bilinear_forms(W):
    v, u, vv, uu, f, k, w = W["v"], W["u"], W["vv"], W["uu"], W["f"], W["k"], W["w"]
    return {
        "mass": u * conj(v) * dx, "stiff": f * inner(grad(u), grad(v)) * dx, "convect": dot(w, grad(u)) * conj(v) * dx,
        "nonsym": u.dx(0) * conj(v) * dx + k * u * conj(v.dx(1)) * ds, "vec": inner(dot(grad(uu), w), vv) * dx,
        "facet": jump(u) * conj(avg(v)) * dS + u("+") * conj(v("-")) * dS, "coef_imag": (1 + 2j) * u * conj(v) * dx,
        "subdomain": u * conj(v) * dx(1) + f * u * conj(v) * dx(2),
    }


def lin_pairs(e_by_key, args, complex_mode, numbers):
    """Linearity obligations (as in C14) for every integrand and each argument number in `numbers`."""
    from checks.C14 import lincheck

    pairs = []
    for e in e_by_key:
        group = [a for a in args if a.number() in numbers]
        if group:
            pairs.extend(lincheck(None, e, group, complex_mode))
    return pairs


def decide(name, pairs, sample, twin=False):
    try:
        diffs = solve.flatten_diffs(pairs)
    except DenotationError as ex:
        return outcome(name, "inconclusive", detail=f"denotation: {ex}", sample=sample)
    r = solve.prove_all_zero(diffs, timeout=60, label=name)
    ok, bad = solve.discharge_lemmas()
    st = r.status if not (r.status == "proved" and bad) else "inconclusive"
    return outcome(name, st, stage=r.stage, detail=r.detail or ("values differ" if st == "violated" else ""),
                   witness=r.witness, sample=sample, twin=twin)


def is_empty(x):
    import ufl.classes as C

    if x is None or isinstance(x, (int, float)):
        return True
    return all(isinstance(i.integrand(), C.Zero) for i in x.integrals())


def prep(form):
    """expand compound operators/derivatives (passes covered by C03/C06) so integrands can be denoted"""
    return form


def run(spec):
    name = spec["name"]
    W = world(spec.get("cell", "triangle"))
    cm = spec.get("complex", False)
    op = spec["op"]
    env = Env(complex_mode=cm)
    den = Denoter(env)
    zero = env.const(0)
    res = []
    if op in ("lhs_rhs", "functional"):
        F = the_forms(W)[spec["form"]]
        r0 = repr(F)
        sample = f"{op}: {str(F)[:200]}"
        try:
            if op == "lhs_rhs":
                a, L = system(F)
                a2, L2 = lhs(F), rhs(F)
            else:
                fn = functional(F)
        except Exception as ex:
            if spec["form"].startswith("conditional") and "invalid expression" in str(ex):
                # arguments inside conditionals are refused by the part extractor: a rejection, not a wrong value
                return outcome(name, "rejected", detail=f"raised {type(ex).__name__}: {str(ex)[:100]}", sample=sample)
            return outcome(name, "violated", detail=f"raised {type(ex).__name__}: {str(ex)[:150]}", sample=sample,
                           witness={"exception": repr(ex)[:200]})
        if repr(F) != r0:
            return outcome(name, "violated", detail="input form mutated", sample=sample, witness={"structural": "mutated"})
        VF = forms.form_value(den, F)
        if op == "functional":
            # F with all arguments (and their derivatives) set to zero
            envz = Env(complex_mode=cm)
            denz = Denoter(envz)
            for a_ in F.arguments():
                envz.arg_override[a_] = lambda comp, derivs, side, envz=envz: envz.const(0)
            VZ = forms.form_value(denz, F)
            Vf = forms.form_value(den, fn) if not is_empty(fn) else {}
            keys = sorted(set(VZ) | set(Vf))
            res.append(decide(name, forms.pairs_for(keys, VZ, Vf, zero), sample))
            return res
        def val(x):
            return {} if is_empty(x) else forms.form_value(den, x)

        Va, VL = val(a), val(L)
        keys = sorted(set(VF) | set(Va) | set(VL))
        pairs = [(VF.get(k, zero), Va.get(k, zero) - VL.get(k, zero)) for k in keys]
        res.append(decide(name + "/F=lhs-rhs", pairs, sample))
        # lhs()/rhs() agree with system()
        Va2, VL2 = val(a2), val(L2)
        keys2 = sorted(set(Va) | set(Va2) | set(VL) | set(VL2))
        res.append(decide(name + "/system=lhs,rhs", forms.pairs_for(keys2, Va, Va2, zero) + forms.pairs_for(keys2, VL, VL2, zero), sample))
        # arity: rhs does not depend on the trial function, lhs is linear in it and in the test function
        from ufl.algorithms.analysis import extract_arguments

        def numbers(x):
            return set() if is_empty(x) else {q.number() for q in extract_arguments(x)}

        nL, na = numbers(L), numbers(a)
        if 1 in nL:
            res.append(outcome(name + "/rhs-arity", "violated", detail="rhs depends on the trial function", sample=sample,
                               witness={"structural": "rhs arguments"}))
        elif not is_empty(a) and na != {0, 1}:
            res.append(outcome(name + "/lhs-arity", "violated", detail=f"lhs has argument numbers {na}", sample=sample,
                               witness={"structural": "lhs arguments"}))
        else:
            lp = []
            if not is_empty(a):
                lp += lin_pairs([i.integrand() for i in a.integrals()], F.arguments(), cm, {0, 1})
            if not is_empty(L):
                lp += lin_pairs([i.integrand() for i in L.integrals()], F.arguments(), cm, {0})
            ring.reset()
            res.append(decide(name + "/multilinear", lp, sample))
        if spec.get("twin"):
            ring.reset()
            env2 = Env(complex_mode=cm)
            den2 = Denoter(env2)
            VF2, Va3, VL3 = forms.form_value(den2, F), forms.form_value(den2, a), forms.form_value(den2, L)
            keys = sorted(set(VF2) | set(Va3) | set(VL3))
            z2 = env2.const(0)
            res.append(decide(name + "#twin", [(VF2.get(k, z2), Va3.get(k, z2) + VL3.get(k, z2)) for k in keys], sample, twin=True))
        return res
    if op == "action_mfs":
        return run_action_mfs(spec, W, cm)
    # bilinear-form operators
    a = bilinear_forms(W)[spec["form"]]
    args = a.arguments()
    v_, u_ = args[0], args[1]
    f = ufl.Coefficient(u_.ufl_function_space(), count=910)
    sample = f"{op}: {str(a)[:200]}"
    r0 = repr(a)

    def overridden(m):
        e2 = Env(complex_mode=cm)
        d2 = Denoter(e2)
        plain = Denoter(Env(complex_mode=cm))
        for t, img in m.items():
            e2.arg_override[t] = (lambda img: lambda comp, derivs, side: plain.pure_derivative(img, comp, tuple(derivs), (), side))(img)
        return d2

    try:
        if op == "action":
            out = action(a, f)
            want = forms.form_value(overridden({u_: f}), a)
        elif op == "action_auto":
            out = action(a)
            newc = [c for c in out.coefficients() if c not in a.coefficients()]
            if len(newc) != 1:
                return outcome(name, "violated", detail=f"action() created {len(newc)} coefficients", sample=sample,
                               witness={"structural": "coefficients"})
            want = forms.form_value(overridden({u_: newc[0]}), a)
        elif op == "adjoint":
            out = adjoint(a)
            nv = ufl.Argument(v_.ufl_function_space(), 1)
            nu = ufl.Argument(u_.ufl_function_space(), 0)
            w0 = forms.form_value(overridden({v_: nv, u_: nu}), a)
            want = {k: ring.conj(x) for k, x in w0.items()}
            oa = out.arguments()
            if [q.number() for q in oa] != [0, 1] or oa[0].ufl_function_space() != u_.ufl_function_space():
                return outcome(name, "violated", detail="adjoint arguments are not the swapped ones", sample=sample,
                               witness={"structural": "arguments"})
        elif op == "adjoint_twice":
            out = adjoint(adjoint(a))
            want = forms.form_value(Denoter(Env(complex_mode=cm)), a)
        elif op == "energy_norm":
            out = energy_norm(a, f)
            want = forms.form_value(overridden({v_: f, u_: f}), a)
        elif op == "energy_norm_auto":
            out = energy_norm(a)
            newc = [c for c in out.coefficients() if c not in a.coefficients()]
            if len(newc) != 1:
                return outcome(name, "violated", detail=f"energy_norm() without coefficient created {len(newc)} "
                               f"distinct coefficients (a(f,f) needs one)", sample=sample, witness={"structural": "coefficients"})
            want = forms.form_value(overridden({v_: newc[0], u_: newc[0]}), a)
        else:
            raise KeyError(op)
    except DenotationError as ex:
        return outcome(name, "inconclusive", detail=f"denotation: {ex}", sample=sample)
    except KeyError:
        raise
    except Exception as ex:
        return outcome(name, "violated", detail=f"raised {type(ex).__name__}: {str(ex)[:150]}", sample=sample,
                       witness={"exception": repr(ex)[:200]})
    if repr(a) != r0:
        return outcome(name, "violated", detail="input form mutated", sample=sample, witness={"structural": "mutated"})
    got = forms.form_value(Denoter(Env(complex_mode=cm)), out)
    keys = sorted(set(want) | set(got))
    z = Env(complex_mode=cm).const(0)
    res.append(decide(name, forms.pairs_for(keys, want, got, z), sample))
    return res


MFS_FORMS = ("only_part1", "parts02", "full", "part2_linear_rest")


def run_action_mfs(spec, W, cm):
    """action(a, coefficients) on MixedFunctionSpace forms: the trial function of part p is replaced by
    coefficients[p], whatever subset of parts occurs in the form."""
    from ufl import MixedFunctionSpace, TestFunctions, TrialFunctions

    from vlib import elements as el_

    name = spec["name"]
    dom = W["dom"]
    cell = dom.ufl_cell()
    subs = [ufl.FunctionSpace(dom, el_.P(cell, 1)), ufl.FunctionSpace(dom, el_.P(cell, 2)), ufl.FunctionSpace(dom, el_.P(cell, 3))]
    MS = MixedFunctionSpace(*subs)
    vs, us = TestFunctions(MS), TrialFunctions(MS)
    f = W["f"]
    a = {"only_part1": us[1] * conj(vs[0]) * dx + f * us[1] * conj(vs[2]) * dx,
         "parts02": us[0] * conj(vs[1]) * dx + 2 * us[2] * conj(vs[2]) * dx + us[2] * conj(vs[0]) * ds,
         "full": sum((k + 1 + 3 * l) * us[l] * conj(vs[k]) * dx for k in range(3) for l in range(3)),
         "part2_linear_rest": us[2] * conj(vs[1]) * dx + f * conj(vs[0]) * dx}[spec["form"]]
    coefs = [ufl.Coefficient(S_, count=930 + k) for k, S_ in enumerate(subs)]
    sample = f"action_mfs: {str(a)[:200]} with one explicit coefficient per sub-space"
    r0 = repr(a)
    try:
        out = action(a, coefs)
    except Exception as ex:  # noqa: BLE001
        return outcome(name, "rejected", detail=f"action raised {type(ex).__name__}: {str(ex)[:120]}", sample=sample)
    if repr(a) != r0:
        return outcome(name, "violated", detail="input form mutated", sample=sample, witness={"structural": "mutated"})
    e2 = Env(complex_mode=cm)
    plain = Denoter(Env(complex_mode=cm))
    for p_, u in enumerate(us):
        e2.arg_override[u] = (lambda img: lambda comp, derivs, side: plain.pure_derivative(img, comp, tuple(derivs), (), side))(coefs[p_])
    try:
        want = forms.form_value(Denoter(e2), a)
        got = forms.form_value(Denoter(Env(complex_mode=cm)), out)
    except DenotationError as ex:
        return outcome(name, "inconclusive", detail=f"denotation: {ex}", sample=sample)
    keys = sorted(set(want) | set(got))
    z = Env(complex_mode=cm).const(0)
    return [decide(name, forms.pairs_for(keys, want, got, z), sample)]


def specs(tier):
    S = []
    W = world()
    for fk in MFS_FORMS:
        for cm in (False, True):
            S.append(dict(name=f"action_mfs/{fk}/{'complex' if cm else 'real'}", op="action_mfs", form=fk, complex=cm))
    for fk in the_forms(W):
        if fk != "three_parts":  # has an argument-free part: not of the class 'affine in the trial function'
            S.append(dict(name=f"lhs_rhs/{fk}", op="lhs_rhs", form=fk, twin=(fk in ("mass_load", "poisson"))))
        S.append(dict(name=f"functional/{fk}", op="functional", form=fk))
    for fk in bilinear_forms(W):
        for op in ("action", "action_auto", "adjoint", "adjoint_twice", "energy_norm", "energy_norm_auto"):
            for cm in (False, True):
                if fk == "coef_imag" and not cm:
                    continue
                S.append(dict(name=f"{op}/{fk}/{'complex' if cm else 'real'}", op=op, form=fk, complex=cm))
    return S


def main():
    tier = harness.tier_from_argv()
    t0 = time.time()
    results = harness.run_pool("checks.C16", "run", specs(tier))
    rc = harness.finish(
        PROP, tier, "translation_validation", results, t0,
        functions=["ufl.formoperators.{lhs,rhs,system,functional,action,adjoint,energy_norm}",
                   "ufl.algorithms.formtransformations.{PartExtracter,compute_form_with_arity,compute_form_lhs,"
                   "compute_form_rhs,compute_form_functional,compute_form_action,compute_energy_norm,compute_form_adjoint}"],
        bounds={"forms for lhs/rhs/functional": len(the_forms(world())), "bilinear forms": len(bilinear_forms(world())),
                "incl.": "factored sums, restricted sums of mixed arity, conditionals, MixedFunctionSpace parts, "
                         "several subdomains and integral types, real and complex mode",
                "outside": "forms with 3+ argument numbers; base forms (C28)"},
        assumptions=["integrands compared per (integral type, subdomain id); smooth fields"],
        rule="one obligation per (operator, form[, mode]); z3 proves the algebraic identity for all field and "
             "argument values; argument-number side conditions compared directly",
        trusted_base=["vlib/denote.py", "vlib/forms.py", "checks/C14.lincheck", "z3"],
    )
    sys.exit(rc)


if __name__ == "__main__":
    main()
