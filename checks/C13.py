"""C13 — structural equality, hashing, repr and pickling are consistent (E2 CrossHair + concrete round trips).

E2:  units/c13_harness: for each terminal-like class two (three) instances with symbolic payload (counts across the
     9 -> 10 digit boundary, numbers, parts, shapes, dims, mesh ids): == symmetric, reflexive, transitive, implies
     equal hash, repr, shape; equal payloads are equal; comparing changes nothing.  Expression DAG pairs from
     symbolic adjacency lists: (a == b) iff structurally equal, stable under repetition in both orders, repr/hash/
     structure of both untouched; hash-colliding index pairs.
side (concrete, not solver-decided; reported separately): pickle and eval(repr(.)) round trips of a fixed list of
     expressions, incl. float literals needing 16/17 significant digits.
"""

from __future__ import annotations

import sys
import time

from vlib import harness, xhair
from vlib.harness import outcome

PROP = "C13"

KINDS = ["Constant", "Coefficient", "Argument", "Index", "FixedIndex", "Label", "MultiIndex", "Zero", "Identity",
         "PermutationSymbol", "IntValueLit", "Mesh", "Geometric", "Variable"]


def roundtrips(spec):
    import math
    import pickle

    import ufl
    from ufl import (Argument, Coefficient, Constant, FunctionSpace, Mesh, as_ufl, conditional, dx, exp, grad, inner,
                     lt, sin, triangle)
    from ufl.classes import FloatValue, IntValue, ComplexValue  # noqa: F401

    import vlib.elements as E

    ns = dict(vars(ufl))
    ns.update(vars(ufl.classes))
    ns.update({"FE": E.FE, "Mixed": E.Mixed, "Symmetric": E.Symmetric, "triangle": triangle, "inf": math.inf})
    from ufl.pullback import IdentityPullback
    from ufl.sobolevspace import SobolevSpace

    ns.update({"IdentityPullback": IdentityPullback, "SobolevSpace": SobolevSpace})
    # elements whose repr is a stable, eval-able tag (element classes are the harness's, not UFL's)
    from ufl.pullback import identity_pullback
    from ufl.sobolevspace import H1

    REG = {"X1": E.FE("Lagrange", triangle, 1, (2,), identity_pullback, H1, tag="EL('X1')"),
           "P2": E.FE("Lagrange", triangle, 2, (), identity_pullback, H1, tag="EL('P2')")}
    ns["EL"] = REG.__getitem__
    dom = Mesh(REG["X1"], ufl_id=3)
    V = FunctionSpace(dom, REG["P2"])
    f, g = Coefficient(V, count=5), Coefficient(V, count=12)
    v = Argument(V, 0)
    c = Constant(dom, (2,), count=9)
    floats = [0.1 + 0.2, 1 / 3, math.pi, math.sqrt(2), 1e-17, 1.7976931348623157e308, 5e-324, 123456789.123456789, 2.5, -0.0]
    exprs = {f"float{k}": as_ufl(x) * f for k, x in enumerate(floats)}
    exprs.update({"poly": f * g + 2 * f**2, "grad": inner(grad(f), grad(g)), "cond": conditional(lt(f, 0.30000000000000004), sin(f), exp(g)),
                  "const": c[0] * f + c[1], "int": IntValue(10) * f, "arg": v * f, "complex": as_ufl(1.5 + 2.5j) * f,
                  "index": f.dx(0) * g.dx(1), "variable": ufl.variable(f * g) ** 2})
    # zeros carrying shape / free indices (what 0*c[i] and 0*grad(f) simplify to), alone and inside an expression
    ii, jj = ufl.Index(count=8), ufl.Index(count=3)
    exprs.update({"zero_free_index": 0 * c[ii], "zero_shape": 0 * grad(f), "zero_two_free": 0 * (c[ii] * c[jj]),
                  "zero_in_cond": conditional(lt(f, 1), 0 * c[ii], c[ii])})
    # unrelated objects that no round trip may change (flyweight caches are process-wide)
    bystanders = {"Zero()": lambda: repr(ufl.classes.Zero()), "as_ufl(0)": lambda: repr(as_ufl(0)), "IntValue(0)": lambda: repr(IntValue(0)),
                  "Zero((2,))": lambda: repr(ufl.classes.Zero((2,))), "0*f": lambda: repr(0 * f), "f+0": lambda: repr(f + 0),
                  "cond(0, c[i])": lambda: repr(conditional(lt(f, 1), 0, f))}
    before_by = {k: fn() for k, fn in bystanders.items()}
    before_ex = {k: repr(e) for k, e in exprs.items()}
    res = []
    # equal forms have equal hash and signature (metadata compared as mappings: key order must not matter at any depth)
    mdA = {"quadrature_degree": 3, "opts": {"x": 1, "y": 2, "z": {"p": 1, "q": 2}}, "rule": "default"}
    mdB = {"rule": "default", "opts": {"z": {"q": 2, "p": 1}, "y": 2, "x": 1}, "quadrature_degree": 3}
    for tag, (m1, m2) in {"nested_metadata_order": (mdA, mdB), "flat_metadata_order": ({"a": 1, "b": 2}, {"b": 2, "a": 1})}.items():
        F1, F2 = f * g * v * dx(metadata=m1), f * g * v * dx(metadata=m2)
        try:
            if F1.equals(F2) and not (hash(F1) == hash(F2) and F1.signature() == F2.signature()):
                res.append(outcome(f"forms/{tag}", "violated", detail="equal forms (equal integrands, equal metadata mappings) have different "
                                   "hash or signature", sample=f"metadata {m1} vs {m2}", witness={"metadata": [repr(m1), repr(m2)]}))
            elif not F1.equals(F2):
                res.append(outcome(f"forms/{tag}", "rejected", detail="the two forms are not == (nothing to check)"))
            else:
                res.append(outcome(f"forms/{tag}", "proved", stage="concrete", sample=f"metadata {m1} vs {m2}"))
        except Exception as ex:  # noqa: BLE001
            res.append(outcome(f"forms/{tag}", "inconclusive", detail=f"{type(ex).__name__}: {str(ex)[:150]}"))
    for k, e in exprs.items():
        name = f"roundtrip/{k}"
        try:
            p = pickle.loads(pickle.dumps(e))
            def now(fn):
                try:
                    return fn()
                except Exception as ex2:  # noqa: BLE001  (constructing it worked before the round trip)
                    return f"raises {type(ex2).__name__}"

            changed = [b for b, fn in bystanders.items() if now(fn) != before_by[b]] + \
                      [k2 for k2, e2 in exprs.items() if repr(e2) != before_ex[k2]]
            if changed:
                res.append(outcome(name, "violated", detail=f"the pickle round trip changed unrelated objects: {changed[:4]}",
                                   sample=repr(e)[:200], witness={"changed": changed[:6]}))
                break
            if not (p == e) or repr(p) != repr(e) or hash(p) != hash(e):
                res.append(outcome(name, "violated", detail="pickle round trip is not an equal object", sample=repr(e)[:200],
                                   witness={"repr": repr(e)[:300]}))
                continue
            if k != "variable" and k != "index" and not k.startswith("zero_"):
                q = eval(repr(e), ns)
                if not (q == e) or repr(q) != repr(e):
                    res.append(outcome(name, "violated", detail=f"eval(repr(.)) is not an equal object: {repr(q)[:120]}",
                                       sample=repr(e)[:200], witness={"repr": repr(e)[:300]}))
                    continue
            res.append(outcome(name, "proved", stage="concrete", sample=repr(e)[:160]))
        except Exception as ex:
            res.append(outcome(name, "inconclusive", detail=f"{type(ex).__name__}: {str(ex)[:150]}", sample=repr(e)[:160]))
    return res


def run(spec):
    if spec["kind"] == "roundtrips":
        return roundtrips(spec)
    return xhair.check_condition(spec["name"], "units.c13_harness", spec["func"], spec["func"], spec["post"],
                                 per_condition_timeout=spec["pct"], twin=spec.get("twin", False),
                                 sample=f"crosshair check units.c13_harness.{spec['func']}")


def specs(tier):
    S = []
    for k in KINDS:
        S.append(dict(name=f"eq/{k}", kind="xhair", func=f"eq_{k}", post="_ == 0", pct=400, task_timeout=700))
        S.append(dict(name=f"transitive/{k}", kind="xhair", func=f"tr_{k}", post="_ == 0", pct=400, task_timeout=700))
    S.append(dict(name="eq/dag_pair", kind="xhair", func="eq_dag_pair", post="_ == 0", pct=400, task_timeout=700))
    S.append(dict(name="eq/hash_collision", kind="xhair", func="eq_collision", post="_ == 0", pct=300, task_timeout=600))
    S.append(dict(name="eq/twin#twin", kind="xhair", func="eq_twin", post="_ == 1", pct=120, twin=True, task_timeout=400))
    S.append(dict(name="roundtrips", kind="roundtrips"))
    return S


def main():
    tier = harness.tier_from_argv()
    t0 = time.time()
    results = harness.run_pool("checks.C13", "run", specs(tier))
    conc = [r["name"] for r in results if r.get("stage") == "concrete"]
    rc = harness.finish(
        PROP, tier, "proof", results, t0,
        functions=["__eq__/__hash__/__repr__ of Constant, Coefficient, Argument, Index, FixedIndex, Label, MultiIndex, Zero, "
                   "Identity, PermutationSymbol, IntValue, Mesh, geometric quantities, Variable",
                   "ufl.exprequals.expr_equals (incl. eager DAG sharing), ufl.core.compute_expr_hash",
                   "pickle / eval(repr) round trips (concrete side checks)"],
        bounds={"counts": "{0, 9, 10} for Constant/Coefficient/Variable/MultiIndex/Zero, 0..11 for Index/FixedIndex/Label/Mesh id", "numbers/parts": "0..1 / {0,1,None}", "shapes": "(), (1,), (2,), (2,2), (1,2)",
                "mesh ids": "0..11", "DAG pairs": "2 leaves, 2 internal nodes each, unary/binary, 24 shapes each",
                "hash collisions": "Index counts 7, 7 + 2^61 - 1, 8", "outside": "forms/integrals; larger counts"},
        assumptions=["symbolic payloads are branched to concrete values before entering UFL (one solver-decided path per "
                     "value): the solver's role is exhaustive coverage of the payload space within the bounds",
                     "pickle / eval(repr) round trips are concrete side checks over a fixed list, not solver results"],
        rule="one CrossHair condition per (class, pair/triple); 'Confirmed over all paths'; counterexamples replayed",
        trusted_base=["units/c13_harness.py", "CrossHair 0.0.110 + z3"],
        extra={"checker_cmd": "crosshair check --report_all units.c13_harness.<condition>",
               "concrete_side_checks": conc},
    )
    sys.exit(rc)


if __name__ == "__main__":
    main()
