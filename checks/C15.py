"""C15 — integral grouping preserves what is integrated on each subdomain (E1, linear).

run:    ufl.algorithms.domain_analysis.{group_form_integrals, rearrange_integrals_by_single_subdomains,
        accumulate_integrands_with_same_metadata, build_integral_data}, utils.sorting.canonicalize_metadata
oracle: for every (integral type, single subdomain id or 'otherwise', metadata, coordinate-derivative stack):
        the sum of the output integrands that apply there == the sum of the original integrands that apply
        there ('everywhere' integrals included per the append option and in 'otherwise'); metadata classes are
        Python equality of the metadata dicts, so a merge across different metadata shows up as a wrong sum.
        Integrands are distinct symbolic scalars c_k * v; z3 proves the (linear) identities for all values.
"""

from __future__ import annotations

import itertools
import sys
import time

import ufl
import ufl.classes as C
from ufl import Coefficient, FunctionSpace, Measure, SpatialCoordinate, TestFunction, derivative

from checks.common import mesh
from vlib import elements as el
from vlib import harness, ring, solve
from vlib.denote import Denoter, Env
from vlib.harness import outcome
from vlib.ring import DenotationError

PROP = "C15"

import numpy as np  # noqa: E402

MD = {
    # array-valued metadata (custom quadrature rules): same bytes / different shape, same shape / different values
    "pts22": {"quadrature_rule": "custom", "quadrature_points": np.array([[0.25, 0.25], [0.5, 0.5]])},
    "pts41": {"quadrature_rule": "custom", "quadrature_points": np.array([[0.25, 0.25], [0.5, 0.5]]).reshape(4, 1)},
    "pts22b": {"quadrature_rule": "custom", "quadrature_points": np.array([[0.25, 0.25], [0.5, 0.25]])},
    # rules that str() renders identically: > 1000 entries differing in the middle (abbreviated with '...'), entries
    # differing beyond the 8 printed digits
    "big_a": {"quadrature_rule": "custom", "quadrature_points": np.linspace(0, 1, 1200).reshape(400, 3)},
    "big_b": {"quadrature_rule": "custom", "quadrature_points": np.where(np.arange(1200).reshape(400, 3) == 601, 0.125,
                                                                         np.linspace(0, 1, 1200).reshape(400, 3))},
    "fine_a": {"quadrature_rule": "custom", "quadrature_points": np.array([[0.25, 0.25], [0.5, 0.5]])},
    "fine_b": {"quadrature_rule": "custom", "quadrature_points": np.array([[0.25, 0.25], [0.5, 0.5 + 1e-11]])},
    "none": {}, "deg2": {"quadrature_degree": 2}, "deg3": {"quadrature_degree": 3},
    "deg2rule": {"quadrature_degree": 2, "quadrature_rule": "default"}, "deg2str": {"quadrature_degree": "2"},
    "nested1": {"opts": {"a": 1}}, "nested2": {"opts": {"a": 2}}, "float1": {"scale": 1.0}, "int1": {"scale": 1},
}

# each pattern: list of (subdomain id, metadata key, integral type, cd?) terms
PATTERNS = {
    "two_ids": [(1, "none", "dx"), (2, "none", "dx")],
    "late_integral_type": [(4, "none", "dPatch"), (1, "none", "dx"), (4, "none", "dPatch"), ("everywhere", "none", "dPatch")],
    "overlap_tuples": [((1, 2), "none", "dx"), ((2, 3), "none", "dx")],
    "everywhere_plus_ids": [("everywhere", "none", "dx"), (1, "none", "dx"), ((1, 2), "none", "dx")],
    "only_everywhere": [("everywhere", "none", "dx"), ("everywhere", "none", "dx")],
    "metadata_split": [(1, "deg2", "dx"), (1, "deg3", "dx"), (1, "deg2", "dx")],
    "metadata_same_integrand": [(1, "deg2", "dx", "same"), (2, "deg3", "dx", "same")],
    "metadata_everywhere": [("everywhere", "deg2", "dx"), (1, "deg3", "dx"), ("everywhere", "deg3", "dx")],
    "metadata_superset": [(1, "deg2", "dx"), (1, "deg2rule", "dx")],
    "metadata_nested": [(1, "nested1", "dx"), (1, "nested2", "dx")],
    "metadata_float_int": [(1, "float1", "dx"), (1, "int1", "dx")],
    "metadata_int_vs_str": [(1, "deg2", "dx"), (1, "deg2str", "dx")],
    "metadata_array_shape": [(1, "pts22", "dx"), (1, "pts41", "dx"), (1, "pts22", "dx")],
    "metadata_array_large": [(1, "big_a", "dx"), (1, "big_b", "dx"), (1, "big_a", "dx")],
    "metadata_array_digits": [(1, "fine_a", "dx"), (1, "fine_b", "dx")],
    "metadata_array_values": [(1, "pts22", "dx"), (1, "pts22b", "dx"), ("everywhere", "pts22b", "dx")],
    "types": [(1, "none", "dx"), (1, "none", "ds"), (1, "none", "dS"), ("everywhere", "none", "ds")],
    "same_integrand_ids": [(1, "none", "dx", "same"), (2, "none", "dx", "same"), (3, "none", "dx")],
    "same_integrand_metadata": [(1, "deg2", "dx", "same"), (2, "deg2", "dx", "same"), (2, "deg3", "dx", "same")],
    "many": [("everywhere", "none", "dx"), ((1, 2, 3), "deg2", "dx"), (2, "deg2", "dx"), (3, "deg3", "dx"),
             ("everywhere", "deg2", "dx"), ((2, 3), "none", "ds"), ("everywhere", "none", "ds")],
    "coordderiv": [(1, "none", "dx", "cd"), (1, "none", "dx")],
    "coordderiv_everywhere": [("everywhere", "none", "dx", "cd"), (1, "none", "dx"), (1, "none", "dx", "cd2")],
    "coordderiv_first_and_second_order": [(1, "none", "dx", "cd"), (1, "none", "dx", "cdcd"), (2, "none", "dx", "cdcd"), (2, "none", "dx", "cd")],
    "coordderiv_second_then_first": [("everywhere", "none", "dx", "cdcd"), (1, "none", "dx", "cd"), (1, "none", "dx")],
    "coordderiv_two_dirs": [(1, "none", "dx", "cd"), (1, "none", "dx", "cd2"), (1, "none", "dx", "cd")],
}


def build(pattern):
    dom = mesh("triangle", 2)
    cell = dom.ufl_cell()
    V = FunctionSpace(dom, el.P(cell, 1))
    v = TestFunction(V)
    x = SpatialCoordinate(dom)
    Vx = FunctionSpace(dom, el.P(cell, 1, (2,)))
    w1, w2 = Coefficient(Vx, count=1390), Coefficient(Vx, count=1391)
    terms = []
    F = None
    same = Coefficient(V, count=1399)
    for k, t in enumerate(PATTERNS[pattern]):
        sid, mdk, typ = t[0], t[1], t[2]
        flag = t[3] if len(t) > 3 else None
        ck = same if flag == "same" else Coefficient(V, count=1300 + k)
        meas = Measure(typ, domain=dom, metadata=MD[mdk] or None)
        m = meas if sid == "everywhere" else meas(sid)
        integrand = ck * v if typ != "dS" else ck("+") * v("+")
        I = integrand * m
        if flag in ("cd", "cd2"):
            I = derivative(I, x, w1 if flag == "cd" else w2)
        if flag == "cdcd":
            # the same shape derivative applied twice (same direction object): a different chain from a single one
            I = derivative(derivative(I, x, w1), x, w1)
        F = I if F is None else F + I
    return dom, F


def strip_cd(e):
    stack = []
    while isinstance(e, C.CoordinateDerivative):
        f, a, b, c = e.ufl_operands
        stack.append(repr((a, b, c)))
        e = f
    return e, tuple(stack)


def sid_tuple(s):
    if s in ("everywhere", "otherwise"):
        return s
    return s if isinstance(s, tuple) else (s,)


def _exact(v):
    # exact rendering (repr of an ndarray abbreviates above 1000 entries and rounds to 8 digits)
    if isinstance(v, np.ndarray):
        return ("ndarray", str(v.dtype), v.shape, repr(v.tolist()))
    if isinstance(v, dict):
        return tuple((k, _exact(x)) for k, x in sorted(v.items()))
    if isinstance(v, (list, tuple)):
        return tuple(_exact(x) for x in v)
    return v


def md_key(md):
    return repr(sorted(((k, _exact(v)) for k, v in (md or {}).items()), key=lambda kv: kv[0]))


def run(spec):
    from ufl.algorithms.domain_analysis import build_integral_data, group_form_integrals

    name = spec["name"]
    if spec["pattern"] == "late_integral_type":
        # history: a grouping happens first, THEN a new integral type is registered (public ufl.measure API) and a form
        # using it is grouped in the same process
        import ufl.measure

        d0, F0 = build("two_ids")
        group_form_integrals(F0, F0.ufl_domains(), do_append_everywhere_integrals=spec["append"])
        if "cell_patch" not in ufl.measure.integral_type_to_measure_name:
            ufl.measure.register_integral_type("cell_patch", "dPatch")
    dom, F = build(spec["pattern"])
    append = spec["append"]
    r0 = repr(F)
    sample = f"{spec['pattern']} append={append}: " + " + ".join(
        f"{i.integral_type()}[{i.subdomain_id()}]{dict(i.metadata()) or ''}" for i in F.integrals())[:300]
    try:
        G = group_form_integrals(F, F.ufl_domains(), do_append_everywhere_integrals=append)
        idata = build_integral_data(G.integrals())
    except Exception as ex:
        return outcome(name, "violated", detail=f"raised {type(ex).__name__}: {str(ex)[:150]}", sample=sample,
                       witness={"exception": repr(ex)[:200]})
    if repr(F) != r0:
        return outcome(name, "violated", detail="input form mutated", sample=sample, witness={"structural": "mutated"})
    # all single ids that occur
    ids = set()
    for i in F.integrals():
        s = sid_tuple(i.subdomain_id())
        if s != "everywhere":
            ids.update(s)
    env = Env()
    den = Denoter(env)
    zero = env.const(0)
    want, got = {}, {}

    def add(d, key, e):
        val = den.ev(e, (), {}, (), None)
        d[key] = val if key not in d else d[key] + val

    try:
        for i in F.integrals():
            e, cd = strip_cd(i.integrand())
            s = sid_tuple(i.subdomain_id())
            mk = md_key(i.metadata())
            typ = i.integral_type()
            if s == "everywhere":
                add(want, (typ, "otherwise", mk, cd), e)
                if append:
                    for q in sorted(j for j in ids_for_type(F, typ)):
                        add(want, (typ, q, mk, cd), e)
            else:
                for q in s:
                    add(want, (typ, q, mk, cd), e)
        out_integrals = [it for d in idata for it in d.integrals]
        for i in out_integrals:
            e, cd = strip_cd(i.integrand())
            s = sid_tuple(i.subdomain_id())
            mk = md_key(i.metadata())
            typ = i.integral_type()
            if s == "everywhere":
                return outcome(name, "violated", detail="'everywhere' left after grouping", sample=sample,
                               witness={"structural": "everywhere"})
            for q in (s if isinstance(s, tuple) else (s,)):
                add(got, (typ, q, mk, cd), e)
    except DenotationError as ex:
        return outcome(name, "inconclusive", detail=f"denotation: {ex}", sample=sample)
    keys = sorted(set(want) | set(got), key=repr)
    pairs = [(want.get(k, zero), got.get(k, zero)) for k in keys]
    r = solve.prove_all_zero(solve.flatten_diffs(pairs), timeout=60, label=name)
    st = r.status
    det = r.detail or ""
    if st == "violated":
        i = getattr(r, "index", None)
        det = f"integrated quantity differs at (type, subdomain, metadata, cd-stack) = {keys[i] if i is not None else '?'}"[:300]
    res = [outcome(name, st, stage=r.stage, detail=det, witness=r.witness, sample=sample, n_keys=len(keys))]
    # integral data entries partition the (type, subdomain-tuple) pairs
    seen = set()
    for d in idata:
        k = (d.integral_type, d.subdomain_id)
        if k in seen:
            res.append(outcome(name + "/idata", "violated", detail=f"duplicate integral data for {k}",
                               witness={"structural": "duplicate"}))
        seen.add(k)
    if spec.get("twin"):
        two = env.const(2)
        r2 = solve.prove_all_zero(solve.flatten_diffs([(a * two, b) for a, b in pairs]), timeout=30)
        res.append(outcome(name + "#twin", r2.status, twin=True))
    return res


def ids_for_type(F, typ):
    out = set()
    for i in F.integrals():
        if i.integral_type() != typ:
            continue
        s = sid_tuple(i.subdomain_id())
        if s != "everywhere":
            out.update(s)
    return out


def specs(tier):
    S = []
    for p in PATTERNS:
        for append in (True, False):
            S.append(dict(name=f"{p}/append={append}", pattern=p, append=append, twin=(p in ("two_ids", "many"))))
    return S


def main():
    tier = harness.tier_from_argv()
    t0 = time.time()
    results = harness.run_pool("checks.C15", "run", specs(tier))
    rc = harness.finish(
        PROP, tier, "translation_validation", results, t0,
        functions=["ufl.algorithms.domain_analysis.{group_form_integrals,rearrange_integrals_by_single_subdomains,"
                   "accumulate_integrands_with_same_metadata,build_integral_data,attach/strip_coordinate_derivatives}",
                   "ufl.utils.sorting.canonicalize_metadata"],
        bounds={"patterns": sorted(PATTERNS), "append option": "both", "metadata values": sorted(MD),
                "outside": "array-valued metadata beyond the concrete arrays of the metadata_array_* patterns (2x2, 4x1, 400x3; differences in shape, values, one entry in the middle of 1200, the 11th digit) (numpy printing is a C boundary: no symbolic model), MeshSequence / "
                           "extra domain integral types, subdomain_data"},
        assumptions=["integrands are distinct symbolic scalars c_k * v (the grouping never looks inside them except "
                     "for canonical sorting and equality)", "metadata classes = Python equality of the dicts"],
        rule="one obligation per (pattern, append option): per (type, single subdomain id / otherwise, metadata, "
             "coordinate-derivative stack) z3 proves output sum == sum of the originals that apply",
        trusted_base=["checks/C15.py applicability rule", "vlib/denote.py", "z3"],
    )
    sys.exit(rc)


if __name__ == "__main__":
    main()
