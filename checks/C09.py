"""C09 — Jacobian product cancellation preserves values (E1).

run:    remove_component_tensors -> cancel_jacobian_products (real code) on
        (a) post-derivative expressions produced by the real pipeline from
            Piola-mapped elements, (b) hand-seeded contractions
oracle: [[in]] == [[out]] with J symbolic, K its (pseudo-)inverse and detJ its
        (pseudo-)determinant defined generically in vlib/geometry.py
"""

from __future__ import annotations

import sys
import time

import ufl
import ufl.classes as C
from ufl import (as_vector, Coefficient, FunctionSpace, Identity, as_ufl, curl, div, dot, grad, inner, tr)
from ufl.classes import (ComponentTensor, Indexed, IndexSum, Jacobian, JacobianDeterminant,
                         JacobianInverse, MultiIndex)
from ufl.core.multiindex import FixedIndex, Index

from checks.common import coef, mesh
from vlib import elements as el
from vlib import harness, ring, tv
from vlib.geometry import GeomEnv
from vlib.harness import outcome

PROP = "C09"


def isum(e, i):
    return IndexSum(e, MultiIndex((i,)))


def idx(e, *ii):
    return Indexed(e, MultiIndex(tuple(FixedIndex(k) if isinstance(k, int) else k for k in ii)))


P = C.Product

ELEMENTS = {
    "P1": lambda c: el.P(c, 1), "P1v": lambda c: el.P(c, 1, (c.topological_dimension,)),
    "RT": el.RT, "N1": el.N1, "DGL2": el.DGL2, "Regge": el.Regge, "HHJ": el.HHJ, "GLS": el.GLS,
    "RTxP": lambda c: el.Mixed([el.RT(c), el.P(c, 1)]), "N1xDG": lambda c: el.Mixed([el.N1(c), el.DGL2(c)]),
}


def pipeline(e):
    """The real passes that precede cancellation in compute_form_data."""
    from ufl.algorithms.apply_algebra_lowering import apply_algebra_lowering
    from ufl.algorithms.apply_derivatives import apply_derivatives
    from ufl.algorithms.apply_function_pullbacks import apply_function_pullbacks
    from ufl.algorithms.apply_geometry_lowering import apply_geometry_lowering
    from ufl.algorithms.remove_component_tensors import remove_component_tensors

    keep = {Jacobian, JacobianInverse, JacobianDeterminant}
    e = apply_algebra_lowering(e)
    e = apply_derivatives(e)
    e = apply_function_pullbacks(e)
    e = apply_geometry_lowering(e, keep)
    e = apply_derivatives(e)
    e = apply_geometry_lowering(e, keep)
    e = apply_derivatives(e)
    return remove_component_tensors(e)


def build(spec):
    dom = mesh(spec["cell"], spec.get("gdim"))
    cell = dom.ufl_cell()
    g, t = dom.geometric_dimension, dom.topological_dimension
    fam = spec["family"]
    if fam == "pipeline":
        mk = ELEMENTS[spec["elem"]] if spec["elem"] != "P1v" else (lambda c: el.P(c, 1, (g,)))
        u = Coefficient(FunctionSpace(dom, mk(cell)), count=400)
        v = Coefficient(FunctionSpace(dom, mk(cell)), count=401)
        f = coef(dom, (), count=402)
        w = spec["expr"]
        sh = u.ufl_shape
        E = {
            "div": lambda: div(u) if len(sh) == 1 else div(u)[0],
            "divdiv": lambda: div(u) * div(v) if len(sh) == 1 else inner(div(u), div(v)),
            "curlcurl": lambda: inner(curl(u), curl(v)),
            "gradgrad": lambda: inner(grad(u), grad(v)),
            "mass": lambda: inner(u, v),
            "fdiv": lambda: f * tr(grad(u)) if len(sh) == 1 else f * tr(grad(u)[0, :, :]),
            "graddot": lambda: dot(grad(u), v)[0] if len(sh) == 1 else inner(grad(u)[..., 0], v),
        }[w]()
        return pipeline(E)
    i, j, k, l = (Index(count=9300 + n) for n in range(4))
    J, K, dJ = Jacobian(dom), JacobianInverse(dom), JacobianDeterminant(dom)
    f = coef(dom, (), count=402)
    vt = coef(dom, (t,), count=403)
    vg = coef(dom, (g,), count=404)
    Att = coef(dom, (t, t), count=405)
    Agg = coef(dom, (g, g), count=406)
    if fam == "seed":
        key = spec["key"]
        S = {
            # K J = I_t (also for pseudo-inverses)
            "KJ/basic": lambda: isum(isum(isum(P(P(idx(K, i, k), idx(J, k, j)), idx(Att, i, j)), k), j), i),
            "KJ/with-factor": lambda: isum(isum(isum(P(P(P(idx(K, i, k), f), idx(J, k, j)), idx(Att, i, j)), k), j), i),
            "KJ/trace": lambda: isum(isum(P(idx(K, i, k), idx(J, k, i)), k), i),
            "KJ/fixed": lambda: isum(P(idx(K, 0, k), idx(J, k, t - 1)), k),
            # J K = I_g only for square J
            "JK/basic": lambda: isum(isum(isum(P(P(idx(J, i, k), idx(K, k, j)), idx(Agg, i, j)), k), j), i),
            "JK/vector": lambda: isum(isum(P(P(idx(J, 0, k), idx(K, k, j)), idx(vg, j)), k), j),
            "JK/trace": lambda: isum(isum(P(idx(J, i, k), idx(K, k, i)), k), i),
            # nested sums in the other order (interchange of summation)
            "KJ/interchanged": lambda: isum(isum(isum(P(idx(K, i, k), P(idx(J, k, j), idx(Att, i, j))), j), k), i),
            "KJ/inner-sum-factor": lambda: isum(isum(P(idx(K, i, k), isum(P(idx(J, k, j), idx(Att, i, j)), j)), k), i),
            # the same Index object used for two different contractions
            "reuse/two-contractions-same-k": lambda: P(
                isum(isum(P(P(idx(K, 0, k), idx(J, k, j)), idx(vt, j)), k), j),
                isum(isum(P(P(idx(K, t - 1, k), idx(J, k, j)), idx(vt, j)), k), j)),
            "reuse/two-contractions-free": lambda: isum(isum(P(
                isum(isum(P(P(idx(K, i, k), idx(J, k, j)), idx(vt, j)), k), j),
                isum(isum(P(P(idx(K, l, k), idx(J, k, j)), idx(vt, j)), k), j)), i), l),
            # a factor outside an inner sum carries, as a *free* index, the Index object the inner sum binds
            # (the value is vt[i] / sum_j vt[j]-weighted; the free index must survive)
            "shadow/outer-factor-free-in-inner-bound": lambda: isum(P(idx(K, i, k), isum(P(idx(J, k, i), idx(vt, i)), i)), k),
            "shadow/outer-factor-free-in-inner-bound-J": lambda: isum(P(idx(J, i, k), isum(P(idx(K, k, i), idx(vg, i)), i)), k),
            "shadow/delta-into-inner-bound": lambda: isum(P(idx(Identity(t), i, k), isum(P(idx(Att, k, i), idx(vt, i)), i)), k),
            # the free index sits in the *base* of the indexed factor (a list tensor whose entries carry it)
            "shadow/listtensor-base-free-in-inner-bound": lambda: isum(P(
                idx(as_vector([idx(vt, j) * (n_ + 1) for n_ in range(t)]), k),
                isum(P(P(isum(P(idx(K, i, l), idx(J, l, k)), l), idx(vt, j)), idx(vt, j)), j)), k),
            # Identity contractions
            "delta/contract": lambda: isum(isum(P(idx(Identity(t), i, j), idx(Att, i, j)), j), i),
            "delta/fixed": lambda: P(idx(Identity(t), 0, 0), f) + P(idx(Identity(t), 0, t - 1), f),
            "delta/vector": lambda: isum(isum(P(P(idx(Identity(t), i, j), idx(vt, i)), idx(vt, j)), j), i),
            "delta/alone": lambda: isum(idx(Identity(t), i, i), i),
            # not a contraction of K with J: must be left alone
            "noncontract/KK": lambda: isum(P(idx(K, 0, k), idx(K, 0, k)), k),
            "noncontract/JtJ": lambda: isum(isum(isum(P(P(idx(J, k, i), idx(J, k, j)), idx(Att, i, j)), k), j), i),
            "noncontract/KtKt": lambda: isum(isum(isum(P(P(idx(K, k, i), idx(J, j, k)), idx(Agg, i, j)), k), j), i)
            if g == t else isum(P(idx(K, 0, k), idx(K, 0, k)), k),
        }
        return S[key]()
    if fam == "power":
        a, b = spec["a"], spec["b"]
        base = {"detJ": dJ, "f": f, "detJ2": dJ * dJ}[spec.get("base", "detJ")]
        num = base ** as_ufl(a) if a != 1 else base
        den = (1 / base) ** as_ufl(b) if b != 1 else 1 / base
        shape = spec.get("shape", "ab")
        if shape == "ab":
            return P(P(num, den), f)
        if shape == "nested":
            return P(P((base ** as_ufl(a)) ** as_ufl(b), 1 / base), f)
        if shape == "nested_div":
            return P(P(1 / ((base ** as_ufl(a)) ** as_ufl(b)), base), f)
        if shape == "free":
            return isum(P(P(P(num, idx(vt, i)), den), idx(vt, i)), i)
    raise KeyError(fam)


def run(spec):
    from ufl.algorithms.cancel_jacobian_products import cancel_jacobian_products

    e = build(spec)
    r0 = repr(e)
    out = cancel_jacobian_products(e)
    env = GeomEnv(spec["cell"], spec.get("gdim"), mode="J", reference_fields=True)
    assumptions = []
    res = [tv.compare(spec["name"], e, out, env, timeout=spec.get("timeout", 60), in_repr=r0)]
    res[0]["changed"] = out is not e and out != e
    if spec.get("twin"):
        ring.reset()
        env2 = GeomEnv(spec["cell"], spec.get("gdim"), mode="J", reference_fields=True)
        res.append(tv.compare(spec["name"] + "#twin", e, out + as_ufl(1), env2, timeout=60, twin=True))
    return res


SEED_KEYS = ["shadow/listtensor-base-free-in-inner-bound", "shadow/outer-factor-free-in-inner-bound", "shadow/outer-factor-free-in-inner-bound-J", "shadow/delta-into-inner-bound", "KJ/basic", "KJ/with-factor", "KJ/trace", "KJ/fixed", "JK/basic", "JK/vector", "JK/trace",
             "KJ/interchanged", "KJ/inner-sum-factor", "reuse/two-contractions-same-k",
             "reuse/two-contractions-free", "delta/contract", "delta/fixed", "delta/vector", "delta/alone",
             "noncontract/KK", "noncontract/JtJ", "noncontract/KtKt"]

CELLS = [("triangle", 2), ("tetrahedron", 3), ("triangle", 3), ("interval", 2), ("interval", 1)]


def specs(tier):
    S = []
    thorough = tier == "thorough"

    def add(**kw):
        kw["name"] = "/".join(f"{k}={v}" for k, v in kw.items() if k not in ("twin", "timeout")).replace(" ", "")
        S.append(kw)

    for cell, g in CELLS:
        for key in SEED_KEYS:
            add(family="seed", key=key, cell=cell, gdim=g, twin=(key in ("KJ/basic", "delta/contract")))
    exps = (1, 2, 3, 0.5, 1.5, -0.5, -1)
    for cell, g in (("triangle", 2), ("triangle", 3)):
        for a in exps:
            for b in exps:
                if not thorough and (a, b) not in ((1, 1), (2, 2), (2, 1), (1, 2), (0.5, 0.5), (1.5, 0.5), (3, 1),
                                                   (0.5, 1.5), (2, 0.5), (-0.5, 1), (1, -1), (-1, 2)):
                    continue
                add(family="power", a=a, b=b, cell=cell, gdim=g)
                add(family="power", a=a, b=b, cell=cell, gdim=g, base="f")
        for a, b in ((2, 0.5), (0.5, 2), (2, 1.5), (4, 0.5), (2, 2), (3, 1), (0.5, 4), (2, -0.5), (-2, 0.5), (6, 0.5)):
            add(family="power", a=a, b=b, cell=cell, gdim=g, shape="nested", twin=((a, b) == (2, 2)))
            add(family="power", a=a, b=b, cell=cell, gdim=g, shape="nested_div")
            add(family="power", a=a, b=b, cell=cell, gdim=g, shape="nested", base="f")
        for a, b in ((1, 1), (2, 1), (2, 2), (0.5, 0.5)):
            add(family="power", a=a, b=b, cell=cell, gdim=g, shape="free")
    pipe = [("RT", "div"), ("RT", "divdiv"), ("RT", "mass"), ("RT", "gradgrad"), ("RT", "fdiv"), ("RT", "graddot"),
            ("N1", "curlcurl"), ("N1", "mass"), ("N1", "gradgrad"), ("P1", "gradgrad"), ("P1v", "divdiv"),
            ("DGL2", "mass"), ("Regge", "mass"), ("HHJ", "divdiv"), ("HHJ", "mass"), ("GLS", "mass"),
            ("GLS", "fdiv"), ("RTxP", "mass"), ("RTxP", "gradgrad"), ("N1xDG", "mass")]
    for cell, g in (("triangle", 2), ("triangle", 3)) + ((("tetrahedron", 3),) if thorough else ()):
        for elem, expr in pipe:
            if expr == "curlcurl" and (cell, g) == ("triangle", 3):
                continue
            if not thorough and (cell, g) == ("triangle", 3) and expr in ("gradgrad",) and elem not in ("P1", "RT"):
                continue
            add(family="pipeline", elem=elem, expr=expr, cell=cell, gdim=g, timeout=120,
                twin=(elem == "RT" and expr == "div"))
    if not thorough:
        for elem, expr in (("RT", "div"), ("RT", "divdiv"), ("N1", "curlcurl"), ("P1", "gradgrad")):
            add(family="pipeline", elem=elem, expr=expr, cell="tetrahedron", gdim=3, timeout=120)
    return S


def main():
    tier = harness.tier_from_argv()
    t0 = time.time()
    results = harness.run_pool("checks.C09", "run", specs(tier))
    changed = sum(1 for r in results if r.get("changed"))
    rc = harness.finish(
        PROP, tier, "translation_validation", results, t0,
        functions=["ufl.algorithms.cancel_jacobian_products.{JacobianCanceller,IdentityEliminator,"
                   "ReciprocalCanceller,_as_base_exponent,_make_power,_delta_cancellation}",
                   "ufl.algorithms.remove_component_tensors (as the pass that precedes it)",
                   "input side: the real pipeline apply_algebra_lowering/apply_derivatives/"
                   "apply_function_pullbacks/apply_geometry_lowering (preserving J, K, detJ)"],
        bounds={"cells": "interval (gdim 1,2), triangle (gdim 2,3), tetrahedron", "seeded contractions": len(SEED_KEYS),
                "exponents": "{1,2,3,1/2,3/2,-1/2,-1} and nested (x**a)**b", "elements": sorted(ELEMENTS),
                "outside": "exponents that are not integers or half-integers (uninterpreted pow); deeper nests"},
        assumptions=["J has full column rank; K is its inverse / Moore-Penrose pseudo-inverse, detJ = det J or "
                     "CellOrientation * sqrt(det(J^T J)) with CellOrientation^2 = 1",
                     "radicals y >= 0, y^2 = x; denominators non-zero; detJ of either sign"],
        rule="seeded contractions x cell kinds, power patterns, and pipeline outputs for Piola elements; "
             "z3 proves in == out for all J and field values",
        trusted_base=["vlib/geometry.py (generic inverse/pseudo-inverse/determinant)", "vlib/denote.py", "z3"],
        extra={"obligations_where_the_pass_changed_the_expression": changed},
    )
    sys.exit(rc)


if __name__ == "__main__":
    main()
