"""C18 — estimated polynomial degree never underestimates the true degree (E2, CrossHair).

run:    the real SumDegreeEstimator handlers (dispatch through MultiFunction.__call__), driven in
        post-order by units/c18_harness.estimate on polynomial skeletons
sym:    element degrees (and sub/super degree pairs, exponent n, component index k) as symbolic ints
post:   estimate - true_degree >= 0, true degree for generic data by an independent max-plus calculus
        that maps physical components of mixed / symmetric / Piola-on-manifold elements to their
        owning sub-element
"""

from __future__ import annotations

import sys
import time

from vlib import harness, xhair

PROP = "C18"

CONDS = ["scalar_poly_n0", "scalar_poly_n1", "scalar_poly_n2", "scalar_poly_n3", "mixed_components_k0",
         "mixed_components_k1", "mixed_components_k2", "mixed_components_k3", "symmetric_components", "symmetric_in_mixed", "mixed_first_symmetric_last",
         "piola_on_manifold", "enriched_sub_element", "nested_mixed", "arguments_enriched", "piola_flat_then_manifold",
         "wrappers", "compound", "piecewise", "quadrilateral_cells", "curved_geometry", "list_of_components"]


def run(spec):
    return xhair.check_condition(spec["name"], "units.c18_harness", spec["func"], spec["func"], spec["post"],
                                 per_condition_timeout=spec.get("pct", 200), twin=spec.get("twin", False),
                                 sample=spec.get("sample"))


def specs(tier):
    S = [dict(name=c, func=c, post="_ >= 0", pct=240 if tier == "quick" else 900, task_timeout=1500,
              sample=f"crosshair check units.c18_harness.{c} (symbolic degrees)") for c in CONDS]
    S.append(dict(name="scalar_poly_twin#twin", func="scalar_poly_twin", post="_ >= 1", twin=True, pct=120,
                  task_timeout=400))
    return S


def main():
    tier = harness.tier_from_argv()
    t0 = time.time()
    results = harness.run_pool("checks.C18", "run", specs(tier))
    rc = harness.finish(
        PROP, tier, "proof", results, t0,
        functions=["ufl.algorithms.estimate_degrees.SumDegreeEstimator.{coefficient,argument,spatial_coordinate,"
                   "constant,indexed,sum,product,power,division,grad/div/curl/nabla_grad/nabla_div(_reduce_degree),index_sum,"
                   "component_tensor,list_tensor,inner,dot,outer,cross,positive_restricted,negative_restricted,conj,real,imag,"
                   "variable,transposed,condition,conditional,min_value,max_value,geometric_quantity,_add_degrees,_max_degrees}", "ufl.corealg.multifunction.MultiFunction.__call__"],
        bounds={"degrees": "0..4 (two symbolic degrees) / 0..3 (three symbolic degrees) / 0..5 for the enriched element", "exponent (concrete loop)": "0..3", "component index (concrete loop)": "all", "skeletons": CONDS,
                "cells": "triangle in R^2, triangle in R^3 (Piola, cross), quadrilateral (per-direction degree: derivatives do not lower it), triangle mesh with coordinate degree 1..4", "outside": "non-polynomial operators (heuristics by "
                "design), tuple-valued degrees of TensorProductCell elements, detJ/normals of non-affine meshes (heuristic by design), map_expr_dags' interning cache (the harness drives "
                "the post-order itself)"},
        assumptions=["true degree = degree for generic coefficient data (no cancellation), grad lowers the degree by "
                     "one on simplices (zero polynomial counted as degree 0)",
                     "component -> sub-element map of the oracle written from the physical value layout"],
        rule="one CrossHair condition per skeleton; 'Confirmed over all paths' over all symbolic degrees in range; "
             "counterexamples replayed concretely",
        trusted_base=["units/c18_harness.py (driver, max-plus oracle)", "CrossHair 0.0.110 + z3"],
        extra={"checker_cmd": "crosshair check --report_all --per_condition_timeout <t> units.c18_harness.<condition>"},
    )
    sys.exit(rc)


if __name__ == "__main__":
    main()
