"""C06 — lowering compound tensor algebra preserves values (engine E1).

run:    ufl.algorithms.apply_algebra_lowering.apply_algebra_lowering on generated
        skeletons (real function, imported from /repo)
oracle: the defining equation of each operator, evaluated by vlib.denote on the
        *input* node (permutation-sum determinant, adjugate inverse, Moore-Penrose
        pseudo-inverse, conjugation conventions of inner/outer, ...)
sym:    every tensor entry (real, or re/im pair in complex mode)
"""

from __future__ import annotations

import sys
import time

import ufl
from ufl import (as_matrix, as_vector, cofac, cross, det, dev, diag, diag_vector, dot, inner, inv,
                 outer, perp, skew, sym, tr, transpose)

from checks.common import coef, mesh
from vlib import harness, ring, tv
from vlib import terms as tm
from vlib.ring import Frac
from vlib.denote import Env

PROP = "C06"


def operand(dom, shape, kind, n):
    """n-th operand of the given shape; kind selects terminal or composite."""
    A = coef(dom, shape, count=100 + n)
    if kind == "terminal":
        return A
    B = coef(dom, shape, count=110 + n)
    f = coef(dom, (), count=120 + n)
    if kind == "sum":
        return A + 2 * B
    if kind == "scaled":
        return f * A
    if kind == "list":
        # an explicit list tensor of entries (exercises ListTensor indexing paths)
        if len(shape) == 2:
            return as_matrix([[A[i, j] + (1 if i == j else 0) for j in range(shape[1])]
                              for i in range(shape[0])])
        return as_vector([A[i] * f for i in range(shape[0])])
    if kind.startswith("sparse") and len(shape) == 2:
        # list tensor with literal (structural) zeros / ones at pattern-dependent positions: the lowering of
        # det/inv/cofac sees Zero entries and may simplify around them
        n = shape[0]
        zeros = {
            "sparse_lead": {(0, 0), (1, 2 % n)},                       # leading entry of the expansion row
            "sparse_mid": {(0, 1 % n), (n - 1, 0)},                      # middle of the expansion row
            "sparse_row1": {(1, 0), (1, 1 % n), (0, n - 1)},             # leading entries of the second row
            "sparse_upper": {(i, j) for i in range(n) for j in range(n) if i > j},
            "sparse_two": {(0, 0), (0, 2 % n), (2 % n, 1 % n)},          # two zeros in the expansion row
        }[kind]
        return as_matrix([[0 if (i, j) in zeros else (A[i, j] + (1 if (i + j) % 3 == 0 else 0))
                           for j in range(n)] for i in range(n)])
    if kind == "transposed" and len(shape) == 2 and shape[0] == shape[1]:
        return A.T + B
    raise ValueError(kind)


UNARY = {
    "inv": inv, "det": det, "cofac": cofac, "dev": dev, "skew": skew, "sym": sym, "tr": tr,
    "transpose": transpose, "perp": perp, "diag": diag, "diag_vector": diag_vector,
}
BINARY = {"dot": dot, "inner": inner, "outer": outer, "cross": cross}


def build(spec):
    dom = mesh(spec.get("cell", "triangle"), spec.get("gdim"))
    op = spec["op"]
    kinds = spec.get("kinds", ("terminal", "terminal"))
    if op in UNARY:
        a = operand(dom, tuple(spec["shape"]), kinds[0], 0)
        return UNARY[op](a)
    if op in BINARY:
        a = operand(dom, tuple(spec["shape"]), kinds[0], 0)
        b = operand(dom, tuple(spec["shape2"]), kinds[1], 1)
        return BINARY[op](a, b)
    if op == "nested":
        # compositions of compound operators
        A = operand(dom, (2, 2), "terminal", 0)
        B = operand(dom, (2, 2), "terminal", 1)
        v = operand(dom, (2,), "terminal", 2)
        which = spec["which"]
        return {
            "inv_dot": lambda: dot(inv(A), v),
            "det_inv": lambda: det(inv(A)) * det(A),
            "dev_sym": lambda: dev(sym(A)) + skew(B),
            "inner_outer": lambda: inner(outer(v, v), A),
            "tr_dot_T": lambda: tr(dot(A, B.T)),
            "cofac_T_dot": lambda: dot(cofac(A).T, A),
            "perp_dot": lambda: dot(perp(v), v),
            "dot_chain": lambda: dot(dot(A, B), v),
            "inner_inv": lambda: inner(inv(A), B),
        }[which]()
    if op == "diffop":
        u = coef(dom, tuple(spec["shape"]), count=130)
        which = spec["which"]
        return {
            "div": lambda: ufl.div(u), "curl": lambda: ufl.curl(u),
            "nabla_grad": lambda: ufl.nabla_grad(u), "nabla_div": lambda: ufl.nabla_div(u),
            "grad_dot": lambda: dot(ufl.grad(u), u) if len(u.ufl_shape) == 1 else ufl.grad(u),
            "div_outer": lambda: ufl.div(outer(u, u)) if len(u.ufl_shape) == 1 else ufl.div(ufl.grad(u)),
        }[which]()
    raise ValueError(op)


def run_rect(spec):
    """Pseudo-determinant / pseudo-inverse of rectangular matrices: these are not
    reachable through Determinant/Inverse nodes (square only); geometry lowering
    calls compound_expressions.{determinant,inverse}_expr directly, and so do we."""
    from ufl.compound_expressions import determinant_expr, inverse_expr

    from vlib import denote, solve
    from vlib.harness import outcome

    dom = mesh("triangle")
    A = operand(dom, tuple(spec["shape"]), spec.get("kinds", ("terminal",))[0], 0)
    env = Env()
    den = denote.Denoter(env)
    M = den.mat(A, {}, (), None)
    if spec["op"] == "det_expr":
        out = determinant_expr(A)
        ref = {(): ring.sqrtval(denote.det(denote.gram(M)))}
    else:
        out = inverse_expr(A)
        P = denote.pinv(M)
        ref = {(i, j): P[i][j] for i in range(len(P)) for j in range(len(P[0]))}
        if out.ufl_shape != (len(P), len(P[0])):
            return outcome(spec["name"], "violated", detail=f"shape {out.ufl_shape}", sample=str(out)[:200])
    pairs = [(ref[c], den.ev(out, c, {}, (), None)) for c in ref]
    r = solve.prove_all_zero(solve.flatten_diffs(pairs), timeout=spec.get("timeout", 60), label=spec["name"])
    ok, bad = solve.discharge_lemmas()
    st = r.status if not (r.status == "proved" and bad) else "inconclusive"
    res = [outcome(spec["name"], st, stage=r.stage, detail=r.detail, witness=r.witness,
                   sample=f"{spec['op']}({A}) ==> {str(out)[:300]}")]
    if spec.get("twin"):
        pairs2 = [(ref[c] * Frac(tm.const(2)), den.ev(out, c, {}, (), None)) for c in ref]
        r2 = solve.prove_all_zero(solve.flatten_diffs(pairs2), timeout=30, label=spec["name"] + "#twin")
        res.append(outcome(spec["name"] + "#twin", r2.status, twin=True))
    return res


def run(spec):
    from ufl.algorithms.apply_algebra_lowering import apply_algebra_lowering

    if spec["op"] in ("det_expr", "inv_expr"):
        return run_rect(spec)
    e = build(spec)
    r0 = repr(e)
    out = apply_algebra_lowering(e)
    env = Env(complex_mode=spec.get("complex", False))
    res = tv.compare(spec["name"], e, out, env, timeout=spec.get("timeout", 30), in_repr=r0)
    outs = [res]
    if spec.get("twin"):
        # vacuity guard: a planted mutant of the *output* must be refuted
        ring.reset()
        comps = [()] if out.ufl_shape == () else None
        mutant = 2 * out if out.ufl_shape == () else out + out
        t = tv.compare(spec["name"] + "#twin", e, mutant, Env(complex_mode=spec.get("complex", False)),
                       timeout=spec.get("timeout", 30), twin=True)
        outs.append(t)
    return outs


def specs(tier):
    S = []

    def add(**kw):
        kw["name"] = "/".join(
            f"{k}={v}" for k, v in kw.items() if k not in ("twin", "timeout")
        ).replace(" ", "")
        S.append(kw)

    thorough = tier == "thorough"
    modes = (False, True)
    sq = (1, 2, 3) + ((4,) if thorough else ())
    for cx in modes:
        for n in sq:
            for op in ("inv", "det", "cofac"):
                if op == "cofac" and n == 1:
                    continue
                add(op=op, shape=(n, n), complex=cx, twin=(n == 2))
        add(op="det", shape=(4, 4), complex=cx) if not thorough else None
        for n in (2, 3):
            for op in ("dev", "skew", "sym", "tr", "transpose", "diag", "diag_vector"):
                add(op=op, shape=(n, n), complex=cx, twin=(op in ("dev", "sym") and n == 2))
        add(op="transpose", shape=(2, 3), complex=cx)
        add(op="perp", shape=(2,), complex=cx, twin=True)
        add(op="diag", shape=(3,), complex=cx)
        # rectangular pseudo-determinant / pseudo-inverse (real geometry only: UFL's
        # formulas are transposes without conjugation)
    for shape in ((2, 1), (3, 1), (3, 2)):
        for kind in ("terminal", "sum"):
            add(op="det_expr", shape=shape, kinds=(kind,), twin=(shape == (3, 2)))
            add(op="inv_expr", shape=shape, kinds=(kind,), timeout=60)
    for cx in modes:
        for sh1, sh2 in (((2,), (2,)), ((3,), (3,)), ((2, 2), (2,)), ((2,), (2, 2)), ((2, 3), (3, 2)),
                         ((3, 3), (3, 3)), ((2, 2, 2), (2,))):
            add(op="dot", shape=sh1, shape2=sh2, complex=cx, twin=(sh1 == (2, 2)))
        for sh in ((2,), (3,), (2, 2), (3, 3), (2, 3), (2, 2, 2)):
            add(op="inner", shape=sh, shape2=sh, complex=cx, twin=(sh == (2,)))
        for sh1, sh2 in (((2,), (2,)), ((2,), (3,)), ((2, 2), (2,)), ((3,), (2, 2))):
            add(op="outer", shape=sh1, shape2=sh2, complex=cx, twin=(sh1 == (2,) and sh2 == (3,)))
        add(op="cross", shape=(3,), shape2=(3,), complex=cx, twin=True)
        for which in ("inv_dot", "det_inv", "dev_sym", "inner_outer", "tr_dot_T", "cofac_T_dot",
                      "perp_dot", "dot_chain", "inner_inv"):
            add(op="nested", which=which, complex=cx)
        # operand kinds
        for kind in ("sum", "scaled", "list", "transposed"):
            for op in ("inv", "det", "dev", "cofac", "sym"):
                add(op=op, shape=(2, 2), kinds=(kind,), complex=cx)
            if thorough:
                for op in ("inv", "det", "dev", "cofac"):
                    add(op=op, shape=(3, 3), kinds=(kind,), complex=cx, timeout=60)
        for kind in ("sparse_lead", "sparse_mid", "sparse_row1", "sparse_upper", "sparse_two"):
            for op in ("det", "inv", "cofac"):
                add(op=op, shape=(3, 3), kinds=(kind,), complex=cx, timeout=60)
            if not cx or thorough:
                add(op="det", shape=(4, 4), kinds=(kind,), complex=cx, timeout=90)
            if thorough:
                add(op="inv", shape=(4, 4), kinds=(kind,), complex=cx, timeout=180)
                add(op="dev", shape=(3, 3), kinds=(kind,), complex=cx)
        for kind in ("sum", "list"):
            add(op="inner", shape=(2, 2), shape2=(2, 2), kinds=(kind, "terminal"), complex=cx)
            add(op="outer", shape=(2,), shape2=(2,), kinds=("terminal", kind), complex=cx)
            add(op="dot", shape=(2, 2), shape2=(2,), kinds=(kind, kind), complex=cx)
    # compound differential operators (lowered to grad + index notation)
    for cell, g in (("triangle", 2), ("tetrahedron", 3), ("triangle", 3)):
        for which, shapes in (("div", ((g,), (g, g))), ("nabla_div", ((g,), (g, g))),
                              ("nabla_grad", ((), (g,), (g, g))), ("curl", ((g,),) if g == 3 else ((), (g,))),
                              ("grad_dot", ((g,),)), ("div_outer", ((g,),))):
            for sh in shapes:
                if cell == "triangle" and g == 3 and which == "curl":
                    continue
                add(op="diffop", which=which, shape=sh, cell=cell, gdim=g)
    return [s for s in S if s is not None]


def main():
    tier = harness.tier_from_argv()
    t0 = time.time()
    S = specs(tier)
    results = harness.run_pool("checks.C06", "run", S)
    rc = harness.finish(
        PROP, tier, "translation_validation", results, t0,
        functions=["ufl.algorithms.apply_algebra_lowering.apply_algebra_lowering (LowerCompoundAlgebra)",
                   "ufl.compound_expressions.{determinant,inverse,cofactor,deviatoric,adj,cross,perp,pseudo_*}_expr"],
        bounds={"square": "n <= 3 quick, n <= 4 thorough (det 4x4 in both)", "sparse operands": "5 literal-zero patterns in list tensors for det/inv/cofac 3x3 and det 4x4 (inv 4x4 thorough)",
                "rectangular": "2x1, 3x1, 3x2 (real)", "rank": "<= 3 for dot/inner",
                "operand kinds": "terminal, sum, scaled, list tensor, transposed", "modes": "real and complex",
                "outside": "larger shapes; operands with free indices; non-affine derivative terms"},
        assumptions=["reals as reals (no floating point rounding)",
                     "division only where the divisor is non-zero (cross-multiplied equalities)",
                     "pseudo-determinant radical: y >= 0 and y^2 = det(A^T A)",
                     "the denotation in vlib/denote.py (defining equations) is the trusted reference"],
        rule="one obligation per (operator, operand shape, operand kind, mode); the verdict of each is z3's "
             "unsat for `exists values: [[op(a,b)]] != [[lowered]]` over all tensor entries; "
             "distinct = distinct obligation names",
        trusted_base=["vlib/denote.py", "vlib/ring.py", "vlib/terms.py (SMT-LIB2 emission)", "z3"],
    )
    sys.exit(rc)


if __name__ == "__main__":
    main()
