"""C12 — signatures do not depend on incidental numbering or process state (E2 + E3 + end-to-end replay).

E2:  units/c12_harness: cmp_expr(t(m), t(n)) == cmp_expr(t(m+s), t(n+s)) for counted terminal kinds (counts on
     both sides of the 9/10 and 99/100 digit boundaries, shifts 0..20), CrossHair over symbolic (m, n, s) selectors.
E3:  decimal digit-vector model (z3, linear integer arithmetic) of the string order of prefix+str(m)+suffix, with
     prefix/suffix taken from the real repr at run time and the model validated against Python on sampled pairs:
     witnesses for repr-ordered kinds are replayed on the real cmp_expr; the model also proves invariance when
     m, n, m+s, n+s all have the same number of digits.
end-to-end: fixed forms are built in fresh interpreters with every global counter pre-advanced by k and under
     several PYTHONHASHSEEDs; all signatures of one form must coincide (the hash-seed quantifier has no symbolic
     variable: it is covered by this replay matrix only).
"""

from __future__ import annotations

import itertools
import json
import os
import random
import subprocess
import sys
import time

from vlib import harness, solve, xhair
from vlib.harness import ROOT, outcome

PROP = "C12"

KINDS = ["Coefficient", "Constant", "ConstantVec", "Label", "IndexedFree", "Variable", "CoordOnMesh", "NormalOnMesh",
         "CoefOnMesh"]
D = 6  # digits


def digit_model(prefix_cmp_free=True):
    """SMT-LIB (LIA) model: lexicographic order of the decimal renderings of m and n (no leading zeros, up to D
    digits, followed by a terminator smaller than any digit: the suffix starts with ')' or ',' in the real reprs)."""
    L = []
    for v in ("m", "n", "p", "q"):
        L.append(f"(declare-const {v} Int)")
        L.append(f"(declare-const len_{v} Int)")
        for k in range(D):
            L.append(f"(declare-const {v}{k} Int)")  # k-th most significant digit, -1 past the end
        L.append(f"(assert (and (<= 0 {v}) (< {v} {10**D}) (<= 1 len_{v}) (<= len_{v} {D})))")
        for k in range(D):
            L.append(f"(assert (ite (< {k} len_{v}) (and (<= 0 {v}{k}) (<= {v}{k} 9)) (= {v}{k} (- 1))))")
        L.append(f"(assert (or (= len_{v} 1) (>= {v}0 1)))")
        # value = sum digit * 10^(len-1-k)
        terms = []
        for ln in range(1, D + 1):
            s = " ".join(f"(* {10 ** (ln - 1 - k)} {v}{k})" for k in range(ln))
            terms.append(f"(=> (= len_{v} {ln}) (= {v} (+ 0 {s})))")
        L.append(f"(assert (and {' '.join(terms)}))")

    def lex(a, b):
        # strict string less-than of the digit strings (terminator -1 < digits)
        cases = []
        for k in range(D):
            eqs = " ".join(f"(= {a}{j} {b}{j})" for j in range(k))
            cases.append(f"(and {eqs} (< {a}{k} {b}{k}))" if k else f"(< {a}0 {b}0)")
        return f"(or {' '.join(cases)})"

    L.append(f"(define-fun lt_mn () Bool {lex('m', 'n')})")
    L.append(f"(define-fun lt_pq () Bool {lex('p', 'q')})")
    return "\n".join(L)


def run(spec):
    kind = spec["kind"]
    if kind == "xhair":
        return xhair.check_condition(spec["name"], "units.c12_harness", spec["func"], spec["func"], spec["post"],
                                     per_condition_timeout=spec["pct"], twin=spec.get("twin", False),
                                     sample=f"crosshair check units.c12_harness.{spec['func']}")
    if kind == "digits":
        return digits(spec)
    if kind == "e2e":
        return e2e(spec)
    raise KeyError(kind)


def digits(spec):
    """E3: validate the digit model against Python, then (a) same-length invariance (unsat), (b) witness search."""
    res = []
    rng = random.Random(int(os.environ.get("VERIF_SEED", "0") or 0))
    base = digit_model()
    # translator validation on sampled pairs
    bad = 0
    for _ in range(40):
        m, n = rng.randrange(10 ** rng.randint(1, D)), rng.randrange(10 ** rng.randint(1, D))
        want = str(m) < str(n)
        script = base + f"\n(assert (= m {m}))(assert (= n {n}))(assert (= p 0))(assert (= q 0))\n" \
            f"(assert (not (= lt_mn {'true' if want else 'false'})))\n(check-sat)\n"
        v, _ = solve.run_z3(script, 30)
        if v != "unsat":
            bad += 1
    if bad:
        return [outcome("digits/model-validation", "inconclusive", detail=f"{bad} sampled pairs disagree with Python")]
    # does the text-order model describe the comparator that is in /repo now?
    from ufl import Constant, Mesh, triangle
    from ufl.sorting import cmp_expr

    from vlib.elements import P

    M = Mesh(P(triangle, 1, (2,)), ufl_id=0)
    off = 0
    for _ in range(60):
        m, n = rng.randrange(10 ** rng.randint(1, D)), rng.randrange(10 ** rng.randint(1, D))
        if m != n and (cmp_expr(Constant(M, count=m), Constant(M, count=n)) < 0) != (str(m) < str(n)):
            off += 1
    if off:
        return [outcome("digits/model-validation", "rejected", detail=f"cmp_expr orders Constants differently from the text order of "
                        f"their repr on {off}/60 sampled count pairs: the digit-vector model of repr ordering does not describe "
                        "the current comparator (the CrossHair shift obligations decide the comparator itself)",
                        sample="decimal digit-vector model of str(m) < str(n)")]
    res.append(outcome("digits/model-validation", "proved", stage="z3 (40 sampled pairs agree with Python's str <)",
                       sample="decimal digit-vector model of str(m) < str(n)"))
    shift = "(declare-const s Int)\n(assert (and (<= 0 s) (= p (+ m s)) (= q (+ n s)) (< m n)))\n"
    # (a) same number of digits everywhere => order invariant
    script = base + "\n" + shift + "(assert (and (= len_m len_n) (= len_m len_p) (= len_m len_q)))\n" \
        "(assert (not (= lt_mn lt_pq)))\n(check-sat)\n"
    v, _ = solve.run_z3(script, 120)
    res.append(outcome("digits/same-length-invariant", "proved" if v == "unsat" else "inconclusive",
                       stage="z3 unsat" if v == "unsat" else None, detail="" if v == "unsat" else f"z3 {v}",
                       sample=f"repr order of counts with equal digit counts (<= {D} digits) is shift invariant"))
    # (b) a witness where the rendered order flips under a shift; replayed on the real comparator
    script = base + "\n" + shift + "(assert (not (= lt_mn lt_pq)))\n(check-sat)\n"
    v, out = solve.run_z3(script, 120, want_model=True)
    if v == "sat":
        env = solve.parse_model(out)
        m, n, s = int(env["m"]), int(env["n"]), int(env["s"])
        from ufl import Constant, Mesh, triangle
        from ufl.sorting import cmp_expr

        from vlib.elements import P

        M = Mesh(P(triangle, 1, (2,)), ufl_id=0)
        c0 = cmp_expr(Constant(M, count=m), Constant(M, count=n))
        c1 = cmp_expr(Constant(M, count=m + s), Constant(M, count=n + s))
        if (c0 < 0) != (c1 < 0):
            res.append(outcome("digits/repr-ordered-terminals", "violated",
                               detail=f"cmp_expr(Constant #{m}, #{n}) = {c0} but with both counts shifted by {s} it is {c1}",
                               witness={"m": m, "n": n, "s": s}, sample="order of repr-compared terminals under a counter shift"))
        else:
            res.append(outcome("digits/repr-ordered-terminals", "proved", stage="witness of the string model does not "
                               "reproduce on cmp_expr: Constants are not ordered by repr (any more)",
                               sample=f"model witness m={m}, n={n}, s={s}"))
    elif v == "unsat":
        res.append(outcome("digits/repr-ordered-terminals", "proved", stage="z3 unsat", sample="no flip exists"))
    else:
        res.append(outcome("digits/repr-ordered-terminals", "inconclusive", detail=f"z3 {v}"))
    return res


def e2e(spec):
    py = os.path.join(ROOT, ".venv", "bin", "python")
    sigs = {}
    for shift in spec["shifts"]:
        for seed in spec["seeds"]:
            env = dict(os.environ, PYTHONHASHSEED=str(seed), PYTHONPATH=os.environ.get("PYTHONPATH") or ROOT)
            p = subprocess.run([py, os.path.join(ROOT, "units", "c12_build.py"), str(shift)], capture_output=True,
                               text=True, env=env, timeout=300)
            line = [l for l in p.stdout.splitlines() if l.startswith("SIGS ")]
            if not line:
                return [outcome("e2e", "inconclusive", detail=f"builder failed: {p.stderr[-300:]}")]
            for k, v in json.loads(line[0][5:]).items():
                sigs.setdefault(k, {})[(shift, seed)] = v
    res = []
    for k, table in sigs.items():
        distinct = {}
        for key, v in table.items():
            distinct.setdefault(v, []).append(key)
        name = f"e2e/{k}"
        if k.startswith("history/") and any(v != "same" for v in distinct):
            bad = [v for v in distinct if v != "same"][0]
            res.append(outcome(name, "violated", detail=f"within one process the signature depends on what was signed before: {bad}",
                               witness={"value": bad, "builds": distinct[bad][:4]}, sample=f"'{k}' of units/c12_build.py"))
            continue
        if len(distinct) == 1:
            res.append(outcome(name, "proved", stage="replay matrix", sample=f"{len(table)} builds (shift, hash seed) agree"))
        else:
            groups = sorted(distinct.values(), key=len)
            res.append(outcome(name, "violated", detail=f"{len(distinct)} different signatures; smallest group built with "
                               f"(counter shift, PYTHONHASHSEED) = {groups[0][:4]}", witness={"groups": [g[:6] for g in groups]},
                               sample=f"form '{k}' of units/c12_build.py"))
    return res


def specs(tier):
    S = []
    for k in KINDS:
        S.append(dict(name=f"shift/{k}", kind="xhair", func=f"shift_{k}", post="_ == 0", pct=400, task_timeout=700))
    S.append(dict(name="shift/twin#twin", kind="xhair", func="shift_twin", post="_ == 1", pct=120, twin=True, task_timeout=400))
    S.append(dict(name="digits", kind="digits"))
    # every residue modulo 8 (small-int sets and dicts iterate in hash order), both sides of the 9/10 and 99/100 boundaries
    shifts = [0, 1, 2, 3, 4, 5, 6, 7, 8, 9, 10, 98, 99] if tier == "quick" else [0, 1, 2, 3, 4, 5, 6, 7, 8, 9, 10, 11, 15, 16, 31, 32, 98, 99, 100, 999]
    seeds = [0, 1, 2, 3] if tier == "quick" else list(range(8))
    S.append(dict(name="e2e", kind="e2e", shifts=shifts, seeds=seeds, task_timeout=900))
    return S


def main():
    tier = harness.tier_from_argv()
    t0 = time.time()
    results = harness.run_pool("checks.C12", "run", specs(tier))
    rc = harness.finish(
        PROP, tier, "proof", results, t0,
        functions=["ufl.sorting.{cmp_expr,_cmp_coefficient,_cmp_argument,_cmp_label,_cmp_multi_index,_cmp_terminal_by_repr}",
                   "ufl.form.Form.{signature,_compute_renumbering,_analyze_domains}", "ufl.algorithms.signature.*",
                   "ufl.algorithms.renumbering"],
        bounds={"counts": "0,1,8,9,10,11,98,99,100,101 with shifts 0,1,2,10,20 (CrossHair); <= 6 decimal digits (digit model)",
                "end-to-end": "9 forms x counter shifts x PYTHONHASHSEEDs (quick: 7 x 4, thorough: 10 x 8)",
                "outside": "the hash-seed quantifier has no symbolic variable (replay matrix only)"},
        assumptions=["creation order is the same in all builds, only the absolute counter values differ"],
        rule="CrossHair: one condition per terminal kind over symbolic (m, n, s) selectors; z3: digit-vector model; "
             "replay: signatures of forms built in fresh interpreters",
        trusted_base=["units/c12_harness.py", "units/c12_build.py", "checks/C12.digit_model", "CrossHair 0.0.110 + z3"],
        extra={"checker_cmd": "crosshair check units.c12_harness.shift_<kind>; z3 (LIA digit vectors)"},
    )
    sys.exit(rc)


if __name__ == "__main__":
    main()
