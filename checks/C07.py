"""C07 — geometry lowering computes the geometric quantities of the actual cell (E1).

run:    apply_geometry_lowering (+ apply_derivatives) per geometric quantity (GeometryLoweringApplier,
        compound_expressions tables)
oracle: specification predicates over the cell's edge vectors (vertex 0 is the origin w.l.o.g.: every
        quantity below depends on vertex differences only, except x and X which use the origin symbol):
        K J = I (and J K symmetric on manifolds), detJ = permutation sum / orientation * sqrt(Gram det),
        volumes: V >= 0 and (t! V)^2 = Gram det, circumradius: R >= 0 and R^2 = |c - v0|^2 with c from the
        linear circumcentre system, edge-length reductions: L >= 0 and L^2 = min/max |e|^2,
        facet normal: unit, orthogonal to the facet tangents, in the cell's tangent space, outward;
        cell normal: unit, orthogonal to J, oriented; facet Jacobian = J * CFJ; cell coordinate: K (x - x0) = X
"""

from __future__ import annotations

import math
import sys
import time
from fractions import Fraction

import ufl
import ufl.classes as C

from checks.common import mesh
from vlib import denote, harness, ring, solve
from vlib import terms as tm
from vlib.denote import Denoter
from vlib.geometry import EDGES, GeomEnv, facet_vertices, opposite_vertex
from vlib.harness import outcome
from vlib.ring import DenotationError, Frac

PROP = "C07"

QUANTS = ["Jacobian", "JacobianInverse", "JacobianDeterminant", "FacetJacobian", "FacetJacobianInverse",
          "FacetJacobianDeterminant", "CellVolume", "FacetArea", "Circumradius", "CellDiameter", "MinCellEdgeLength",
          "MaxCellEdgeLength", "MinFacetEdgeLength", "MaxFacetEdgeLength", "FacetNormal", "CellNormal",
          "CellCoordinate", "SpatialCoordinate"]


def lower(q):
    from ufl.algorithms.apply_derivatives import apply_derivatives
    from ufl.algorithms.apply_geometry_lowering import apply_geometry_lowering

    e = apply_geometry_lowering(q)
    e = apply_derivatives(e)
    e = apply_geometry_lowering(e)
    return apply_derivatives(e)


def matT(M):
    return [[M[i][j] for i in range(len(M))] for j in range(len(M[0]))]


def dotv(a, b):
    r = None
    for x, y in zip(a, b):
        t = x * y
        r = t if r is None else r + t
    return r


def gramdet(M):
    G = denote.gram(M)
    return denote.det(G) if len(G) > 1 else G[0][0]


SCALARS = ["JacobianDeterminant", "CellVolume", "Circumradius", "CellDiameter", "MinCellEdgeLength", "MaxCellEdgeLength",
           "FacetArea", "MinFacetEdgeLength", "MaxFacetEdgeLength"]


def run_pair(spec):
    """Context independence: several quantities lowered in ONE call (shared memoisation inside the lowering pass)
    must each come out as when lowered alone (the single lowerings are decided against their predicates above)."""
    name = spec["name"]
    cell, g = spec["cell"], spec["gdim"]
    dom = mesh(cell, g)
    facet = spec.get("facet", 0)
    qs = [getattr(C, qn)(dom) for qn in spec["qs"]]
    try:
        singles = [lower(q) for q in qs]
        together = lower(ufl.as_vector(qs))
    except Exception as ex:
        return outcome(name, "rejected", detail=f"lowering raised {type(ex).__name__}: {str(ex)[:100]}")
    sample = f"{', '.join(spec['qs'])} on {cell} in R^{g} lowered in one expression: {str(together)[:200]}"
    if together.ufl_shape != (len(qs),):
        return outcome(name, "violated", detail=f"shape {together.ufl_shape}", sample=sample, witness={"structural": "shape"})
    env = GeomEnv(cell, g, mode="J", facet=facet)
    den = Denoter(env)
    try:
        pairs = [(den.ev(s1, (), {}, (), None), den.ev(together, (k,), {}, (), None)) for k, s1 in enumerate(singles)]
        diffs = solve.flatten_diffs(pairs)
    except DenotationError as ex:
        return outcome(name, "inconclusive", detail=f"denotation: {ex}", sample=sample)
    r = solve.prove_all_zero(diffs, timeout=spec.get("timeout", 120), label=name)
    ok, bad = solve.discharge_lemmas(timeout=60)
    st = r.status if not (r.status == "proved" and bad) else "inconclusive"
    return outcome(name, st, stage=r.stage, detail=(r.detail or "") + (" lowered together differs from lowered alone" if st == "violated" else ""),
                   witness=r.witness, sample=sample)


class TwoMeshEnv(GeomEnv):
    """Geometry of two distinct meshes with equal coordinate elements: terminals that live on the second mesh are
    denoted with their own primitive symbols (the side-suffix mechanism of GeomEnv: J00@B, co@B, ...)."""

    def __init__(self, cell, g, second):
        super().__init__(cell, g, mode="J")
        self._second = second

    def symbol(self, t, comp, derivs, side):
        if isinstance(t, (C.SpatialCoordinate, C.GeometricQuantity)) and t.ufl_domain() is self._second:
            side = "B"
        return super().symbol(t, comp, derivs, side)


def run_two_meshes(spec):
    """Quantities of two DIFFERENT meshes (same cell, degree, gdim: equal coordinate elements, different ufl_id) lowered in
    one call: each component must be the quantity of its own mesh (== that quantity lowered alone, which the
    single-quantity obligations decide against the defining predicates)."""
    name = spec["name"]
    cell, g = spec["cell"], spec["gdim"]
    A, B = mesh(cell, g), mesh(cell, g)
    doms = {"A": A, "B": B}
    qs = [getattr(C, qn)(doms[m]) for qn, m in spec["qs"]]
    sc = [q if q.ufl_shape == () else q[(0,) * len(q.ufl_shape)] for q in qs]
    try:
        singles = [lower(q) for q in sc]
        together = lower(ufl.as_vector(sc))
    except Exception as ex:
        return outcome(name, "rejected", detail=f"lowering raised {type(ex).__name__}: {str(ex)[:100]}")
    sample = f"{spec['qs']} on two {cell} meshes in R^{g} lowered in one expression: {str(together)[:200]}"
    env = TwoMeshEnv(cell, g, B)
    den = Denoter(env)
    try:
        pairs = [(den.ev(s1, (), {}, (), None), den.ev(together, (k,), {}, (), None)) for k, s1 in enumerate(singles)]
        diffs = solve.flatten_diffs(pairs)
        # reachability of the distinction itself: the same quantity on A and on B must NOT be provably equal
        twin = None
        if spec.get("twin"):
            twin = solve.prove_all_zero(solve.flatten_diffs([(den.ev(singles[0], (), {}, (), None),
                                                              den.ev(lower(getattr(C, spec["qs"][0][0])(B) if qs[0].ufl_shape == () else
                                                                           getattr(C, spec["qs"][0][0])(B)[(0,) * len(qs[0].ufl_shape)]),
                                                                     (), {}, (), None))]), timeout=60)
    except DenotationError as ex:
        return outcome(name, "inconclusive", detail=f"denotation: {ex}", sample=sample)
    r = solve.prove_all_zero(diffs, timeout=spec.get("timeout", 120), label=name)
    ok, bad = solve.discharge_lemmas(timeout=60)
    st = r.status if not (r.status == "proved" and bad) else "inconclusive"
    res = [outcome(name, st, stage=r.stage, detail=(r.detail or "") + (" a component takes its geometry from the other mesh" if st == "violated" else ""),
                   witness=r.witness, sample=sample)]
    if twin is not None:
        res.append(outcome(name + "#twin", twin.status, twin=True))
    return res


def run(spec):
    if spec.get("family") == "pair":
        return run_pair(spec)
    if spec.get("family") == "twomesh":
        return run_two_meshes(spec)
    name = spec["name"]
    cell, g, qn = spec["cell"], spec["gdim"], spec["q"]
    dom = mesh(cell, g)
    if spec.get("coords") == "DG":
        # affine cells described by a discontinuous P1 coordinate field (periodic meshes): not a "piecewise linear
        # simplex domain" for UFL, so the generic branches of the lowering are taken
        from checks.common import CELLS
        from vlib import elements as el_

        dom = ufl.Mesh(el_.DG(CELLS[cell], 1, (g,)))
    t = dom.topological_dimension
    facet = spec.get("facet")
    env = GeomEnv(cell, g, mode="J", facet=facet)
    den = Denoter(env)
    q = getattr(C, qn)(dom)
    try:
        low = lower(q)
    except Exception as ex:
        if spec.get("may_raise"):
            return outcome(name, "rejected", detail=f"lowering raised {type(ex).__name__}: {str(ex)[:100]}")
        return outcome(name, "violated", detail=f"lowering raised {type(ex).__name__}: {str(ex)[:150]}",
                       witness={"exception": repr(ex)[:200]})
    sample = f"{qn} on {cell} in R^{g}" + (f", facet {facet}" if facet is not None else "") + f": {str(low)[:200]}"
    if low.ufl_shape != q.ufl_shape:
        return outcome(name, "violated", detail=f"shape {low.ufl_shape} != {q.ufl_shape}", sample=sample,
                       witness={"structural": "shape"})
    eqs, conds = [], []          # (lhs, rhs) pairs; Bool terms that must be implied
    J = env.J()
    one, zero = env.const(1), env.const(0)
    try:
        def L(*comp):
            return den.ev(low, tuple(comp), {}, (), None)

        def Lmat():
            sh = low.ufl_shape
            return [[L(i, j) for j in range(sh[1])] for i in range(sh[0])]

        def Lvec():
            return [L(i) for i in range(low.ufl_shape[0])]

        V = env.vertex_coords()
        if qn == "Jacobian":
            M = Lmat()
            eqs += [(M[i][j], V[j + 1][i] - V[0][i]) for i in range(g) for j in range(t)]
        elif qn == "JacobianInverse":
            K = Lmat()
            KJ = denote.matmul(K, J)
            eqs += [(KJ[i][j], one if i == j else zero) for i in range(t) for j in range(t)]
            if g > t:
                JK = denote.matmul(J, K)
                eqs += [(JK[i][j], JK[j][i]) for i in range(g) for j in range(i)]
        elif qn == "JacobianDeterminant":
            d = L()
            if g == t:
                eqs.append((d, denote.det(J) if t > 1 else J[0][0]))
            else:
                co = env.orientation()
                eqs.append((d * d, gramdet(J)))
                conds.append(ring.sign_term_ge(d * co))
        elif qn == "FacetJacobian":
            M = Lmat()
            fv = facet_vertices(t, facet)
            eqs += [(M[i][j], V[fv[j + 1]][i] - V[fv[0]][i]) for i in range(g) for j in range(t - 1)]
        elif qn == "FacetJacobianInverse":
            FK = Lmat()
            FJ = env.FJ()
            P = denote.matmul(FK, FJ)
            eqs += [(P[i][j], one if i == j else zero) for i in range(t - 1) for j in range(t - 1)]
            Q = denote.matmul(FJ, FK)
            eqs += [(Q[i][j], Q[j][i]) for i in range(g) for j in range(i)]
        elif qn == "FacetJacobianDeterminant":
            d = L()
            FJ = env.FJ()
            if len(FJ) == len(FJ[0]):
                eqs.append((d, denote.det(FJ) if len(FJ) > 1 else FJ[0][0]))
            else:
                eqs.append((d * d, gramdet(FJ)))
                conds.append(ring.sign_term_ge(d))
        elif qn == "CellVolume":
            v = L()
            ft = env.const(math.factorial(t))
            eqs.append((v * v * ft * ft, gramdet(J)))
            conds.append(ring.sign_term_ge(v))
        elif qn == "FacetArea":
            a = L()
            if t == 1:
                eqs.append((a, one))
            else:
                ft = env.const(math.factorial(t - 1))
                eqs.append((a * a * ft * ft, gramdet(env.FJ())))
                conds.append(ring.sign_term_ge(a))
        elif qn == "Circumradius":
            R = L()
            G = denote.gram(J)
            half = env.const(Fraction(1, 2))
            if t == 1:
                y = [half]
            else:
                Gi = denote.inverse(G)
                y = [dotv(Gi[i], [G[k][k] * half for k in range(t)]) for i in range(t)]
            Gy = [dotv(G[i], y) for i in range(t)]
            eqs.append((R * R, dotv(y, Gy)))
            conds.append(ring.sign_term_ge(R))
        elif qn in ("CellDiameter", "MinCellEdgeLength", "MaxCellEdgeLength", "MinFacetEdgeLength", "MaxFacetEdgeLength"):
            Lq = L()
            if "Facet" in qn:
                fv = facet_vertices(t, facet)
                edges = [(fv[a], fv[b]) for a, b in EDGES[t - 1]]
            else:
                edges = EDGES[t]
            sq = []
            for a, b in edges:
                dvec = [V[b][c] - V[a][c] for c in range(g)]
                sq.append(dotv(dvec, dvec))
            want = sq[0]
            for s in sq[1:]:
                if qn.startswith("Min"):
                    want = ring.ite(Frac.of(s).lt(Frac.of(want)), s, want)
                else:
                    want = ring.ite(Frac.of(want).lt(Frac.of(s)), s, want)
            eqs.append((Lq * Lq, want))
            conds.append(ring.sign_term_ge(Lq))
        elif qn == "FacetNormal":
            n = Lvec()
            eqs.append((dotv(n, n), one))
            fv = facet_vertices(t, facet)
            for k in range(1, len(fv)):
                tang = [V[fv[k]][c] - V[fv[0]][c] for c in range(g)]
                eqs.append((dotv(n, tang), zero))
            if g > t:
                K = env.K()
                JK = denote.matmul(J, K)
                for i in range(g):
                    eqs.append((dotv(JK[i], n), n[i]))
            # outward: pointing away from the opposite vertex
            opp = [V[opposite_vertex(t, facet)][c] - V[fv[0]][c] for c in range(g)]
            conds.append(ring.sign_term_lt(dotv(n, opp)))
        elif qn == "CellNormal":
            n = Lvec()
            eqs.append((dotv(n, n), one))
            for j in range(t):
                eqs.append((dotv(n, [J[i][j] for i in range(g)]), zero))
            M = [list(J[i]) + [n[i]] for i in range(g)]
            conds.append(ring.sign_term_gt(denote.det(M) * env.orientation()))
        elif qn == "CellCoordinate":
            X = Lvec()
            eqs += [(X[j], env.X()[j]) for j in range(t)]
        elif qn == "SpatialCoordinate":
            x = Lvec()
            eqs += [(x[c], env.x()[c]) for c in range(g)]
        else:
            raise KeyError(qn)
        diffs = solve.flatten_diffs(eqs)
    except DenotationError as ex:
        return outcome(name, "inconclusive", detail=f"denotation: {ex}", sample=sample)
    res = []
    r = solve.prove_all_zero(diffs, timeout=spec.get("timeout", 120), label=name)
    ok, bad = solve.discharge_lemmas(timeout=spec.get("timeout", 120))
    st = r.status if not (r.status == "proved" and bad) else "inconclusive"
    res.append(outcome(name, st, stage=r.stage, detail=(r.detail or "") + (" predicate equations fail" if st == "violated" else ""),
                       witness=r.witness, sample=sample, n_equations=len(eqs)))
    for k, cnd in enumerate(conds):
        rc = solve.prove_implied(cnd, timeout=spec.get("timeout", 120), label=name + "/sign")
        res.append(outcome(f"{name}/sign{k}", rc.status, stage=rc.stage, detail=rc.detail or ("sign predicate fails" if rc.status == "violated" else ""),
                           witness=rc.witness, sample=sample))
    if spec.get("twin"):
        two = env.const(2)
        r2 = solve.prove_all_zero(solve.flatten_diffs([(a * two, b) for a, b in eqs[:1]]), timeout=60)
        res.append(outcome(name + "#twin", r2.status, twin=True))
    return res


CELLS = [("interval", 1), ("interval", 2), ("interval", 3), ("triangle", 2), ("triangle", 3), ("tetrahedron", 3)]


def specs(tier):
    S = []
    TD = {"interval": 1, "triangle": 2, "tetrahedron": 3}
    for cell, g in CELLS:
        t = TD[cell]
        for q in QUANTS:
            facet_q = q.startswith("Facet") or q in ("MinFacetEdgeLength", "MaxFacetEdgeLength")
            if q == "CellNormal" and g != t + 1:
                continue
            if q in ("MinFacetEdgeLength", "MaxFacetEdgeLength") and t < 3:
                continue
            if q in ("FacetJacobian", "FacetJacobianInverse", "FacetJacobianDeterminant") and t == 1:
                continue
            facets = list(range(t + 1)) if facet_q else [None]
            for f in facets:
                S.append(dict(name=f"{q}/{cell}/gdim={g}" + (f"/facet={f}" if f is not None else ""), q=q, cell=cell,
                              gdim=g, facet=f, timeout=180 if q == "Circumradius" else 120,
                              task_timeout=600 if q == "Circumradius" else 300,
                              twin=(q in ("CellVolume", "JacobianInverse", "FacetNormal") and (cell, g) == ("triangle", 2) and f in (None, 0))))
    for cell, g in (("triangle", 2), ("tetrahedron", 3), ("triangle", 3)):
        t = TD[cell]
        for q in ("CellDiameter", "MinCellEdgeLength", "MaxCellEdgeLength", "Circumradius", "CellVolume", "FacetArea", "FacetNormal",
                  "JacobianInverse", "MinFacetEdgeLength", "MaxFacetEdgeLength"):
            if q in ("MinFacetEdgeLength", "MaxFacetEdgeLength") and t < 3:
                continue
            facets = [0, t] if q.startswith("Facet") or "FacetEdge" in q else [None]
            for f in facets:
                S.append(dict(name=f"dgcoords/{q}/{cell}/gdim={g}" + (f"/facet={f}" if f is not None else ""), q=q, cell=cell, gdim=g,
                              facet=f, coords="DG", may_raise=True, timeout=180 if q == "Circumradius" else 120,
                              task_timeout=600 if q == "Circumradius" else 300))
    # several quantities lowered in one expression, in both orders
    import itertools

    for cell, g in (("triangle", 2), ("tetrahedron", 3), ("triangle", 3)) + ((("interval", 2),) if tier == "thorough" else ()):
        t = TD[cell]
        avail = [q for q in SCALARS if not (q in ("MinFacetEdgeLength", "MaxFacetEdgeLength") and t < 3)]
        for a, b in itertools.permutations(avail, 2):
            heavy = "Circumradius" in (a, b) and cell == "tetrahedron"
            if heavy and tier != "thorough" and not {a, b} <= {"Circumradius", "CellVolume", "MinCellEdgeLength"}:
                continue
            S.append(dict(name=f"pair/{a}+{b}/{cell}/gdim={g}", family="pair", qs=[a, b], cell=cell, gdim=g, facet=0,
                          timeout=120, task_timeout=400))
        S.append(dict(name=f"pair/all-edge-lengths/{cell}/gdim={g}", family="pair", cell=cell, gdim=g, facet=0, timeout=120,
                      qs=["MaxCellEdgeLength", "CellDiameter", "MinCellEdgeLength"] + (["MaxFacetEdgeLength", "MinFacetEdgeLength"] if t == 3 else []),
                      task_timeout=400))
    # quantities of two different meshes with equal coordinate elements in one lowering call (round 4)
    for cell, g in (("triangle", 2), ("tetrahedron", 3), ("triangle", 3)):
        for a, b in (("CellVolume", "CellVolume"), ("JacobianDeterminant", "CellVolume"), ("Jacobian", "JacobianInverse"),
                     ("JacobianInverse", "Jacobian"), ("CellDiameter", "MinCellEdgeLength"), ("JacobianDeterminant", "JacobianDeterminant")):
            for order in ("AB", "BA"):
                S.append(dict(name=f"twomesh/{a}@{order[0]}+{b}@{order[1]}/{cell}/gdim={g}", family="twomesh", cell=cell, gdim=g,
                              qs=[(a, order[0]), (b, order[1])], timeout=120, task_timeout=400,
                              twin=(a == "CellVolume" and b == "CellVolume" and order == "AB" and g == 2)))
        S.append(dict(name=f"twomesh/three/{cell}/gdim={g}", family="twomesh", cell=cell, gdim=g, timeout=120, task_timeout=400,
                      qs=[("CellVolume", "B"), ("JacobianDeterminant", "A"), ("CellVolume", "A"), ("JacobianDeterminant", "B")]))
    return S


def main():
    tier = harness.tier_from_argv()
    t0 = time.time()
    results = harness.run_pool("checks.C07", "run", specs(tier))
    rc = harness.finish(
        PROP, tier, "translation_validation", results, t0,
        functions=["ufl.algorithms.apply_geometry_lowering.{apply_geometry_lowering,GeometryLoweringApplier}",
                   "ufl.compound_expressions.{determinant_expr,inverse_expr,pseudo_*,cross_expr}",
                   "ufl.algorithms.apply_derivatives (ReferenceGrad of the coordinate field)"],
        bounds={"cells": "interval in R^1,R^2,R^3; triangle in R^2,R^3; tetrahedron in R^3", "facets": "every local facet",
                "quantities": QUANTS, "outside": "non-affine / non-simplex cells; ridge quantities"},
        assumptions=["vertex 0 at the origin symbol (translation invariance of the quantities: they depend on vertex "
                     "differences; x and X use the origin explicitly)", "non-degenerate cell (Gram determinant != 0)",
                     "reference-cell tables of vlib/geometry.py (FIAT/UFC numbering: facet f opposite vertex f)",
                     "radicals y >= 0, y^2 = x; CellOrientation^2 = 1"],
        rule="one obligation per (quantity, cell, gdim, facet): equations of the specification predicate decided by "
             "z3 (radicals rewritten), sign predicates decided as implications under the side facts; plus context "
             "independence: ordered pairs of scalar quantities lowered in one expression == each lowered alone",
        trusted_base=["vlib/geometry.py", "vlib/denote.py", "z3"],
    )
    sys.exit(rc)


if __name__ == "__main__":
    main()
