"""C19 — DAG traversal and mapping visit every distinct node correctly (E2 CrossHair + E3 tables).

E2:  units/c19_harness: unique_pre/post_traversal, cutoff_unique_post_traversal, map_expr_dag (compress on/off,
     MultiFunction handlers) on DAGs built from a symbolic adjacency list (<= 3 internal nodes, arity <= 2,
     a cutoff type): each distinct node once, operands before users, map == recursive application.
E3:  MultiFunction / Transformer / DAGTraverser dispatch for EVERY registered expression type under a family of
     handler-name subsets: handler chosen by the real tables vs nearest ancestor in type.mro(); decided by z3 over
     symbolic (type index, handler-set index) into the two tables.
"""

from __future__ import annotations

import itertools
import sys
import time

from vlib import harness, solve, xhair
from vlib.harness import outcome

PROP = "C19"

CONDS = [("shape1", 120)] + [(f"shape2_k{a}{b}", 300) for a in range(3) for b in range(3)]
CONDS3 = [("shape3_bb", 600), ("shape3_ub", 600), ("shape3_cb", 600), ("shape3_bc", 900)]


def run(spec):
    if spec["kind"] == "xhair":
        return xhair.check_condition(spec["name"], "units.c19_harness", spec["func"], spec["func"], spec["post"],
                                     per_condition_timeout=spec["pct"], twin=spec.get("twin", False),
                                     sample=f"crosshair check units.c19_harness.{spec['func']}")
    if spec["kind"] == "memo":
        return memo_instances(spec)
    if spec["kind"] == "dagtraverser":
        return dagtraverser_kwargs(spec)
    return dispatch_tables(spec)


def memo_instances(spec):
    """Two differently configured instances of one algorithm class with a memoised handler map the same DAG one after
    the other: each result must be the recursive application of that instance's own handlers (z3 decides the values)."""
    import ufl
    from ufl.corealg.map_dag import map_expr_dag
    from ufl.corealg.multifunction import MultiFunction, memoized_handler

    from checks.common import coef, mesh
    from vlib import tv
    from vlib.denote import Env

    class Scale(MultiFunction):
        def __init__(self, k):
            MultiFunction.__init__(self)
            self.k = k

        expr = MultiFunction.reuse_if_untouched

        @memoized_handler
        def coefficient(self, o):
            return self.k * o

    dom = mesh("triangle", 2)
    f, g = coef(dom, (), count=1900), coef(dom, (), count=1901)
    e = f * g + ufl.sin(f) * f + g / (1 + f * f)
    res = []
    for k in (2, 3, 5):
        out = map_expr_dag(Scale(k), e, compress=spec.get("compress", True))
        want = ufl.replace(e, {f: k * f, g: k * g}) if False else (k * f) * (k * g) + ufl.sin(k * f) * (k * f) + (k * g) / (1 + (k * f) * (k * f))
        res.append(tv.compare(f"{spec['name']}/k={k}", want, out, Env(), timeout=60, check_structure=False))
    return res


def dagtraverser_kwargs(spec):
    """The real DAGTraverser.__call__ memoisation with keyword contexts: a traverser whose handlers visit shared
    sub-expressions under different keyword arguments (different names with equal values, equal names with different
    values, subsets, both orders) must return what the plain recursive application of the same rules returns; one
    instance is also reused for several roots and top-level contexts (history).  z3 decides value equality."""
    from functools import singledispatchmethod

    import ufl
    from ufl.classes import Division, Expr, Power, Product, Sin, Sum, Terminal
    from ufl.corealg.dag_traverser import DAGTraverser

    from checks.common import coef, mesh
    from vlib import tv
    from vlib.denote import Env

    def leaf(o, invert=False, negate=False, scale=1):
        r = o
        if invert:
            r = 1 / (2 + r * r)
        if negate:
            r = -r
        if scale != 1:
            r = scale * r
        return r

    def nd(kw):
        # pass only the non-default keywords down (this is what makes contexts with equal value tuples possible)
        d = {}
        if kw.get("invert"):
            d["invert"] = True
        if kw.get("negate"):
            d["negate"] = True
        if kw.get("scale", 1) != 1:
            d["scale"] = kw["scale"]
        return d

    def rules(rec, o, kw):
        if isinstance(o, Terminal):
            return leaf(o, **kw) if o.ufl_shape == () and not isinstance(o, ufl.classes.ConstantValue) else o
        a = o.ufl_operands
        if isinstance(o, Sum):
            return rec(a[0], **nd(kw)) + rec(a[1], **nd(kw))
        if isinstance(o, Product):
            return rec(a[0], negate=True) * rec(a[1], invert=True)
        if isinstance(o, Division):
            return rec(a[0], scale=2) / (3 + rec(a[1], scale=3) ** 2)
        if isinstance(o, Power):
            return rec(a[0], invert=True, negate=True) ** a[1]
        if isinstance(o, Sin):
            return ufl.sin(rec(a[0], negate=True, invert=True))
        raise TypeError(type(o).__name__)

    class T(DAGTraverser):
        @singledispatchmethod
        def process(self, o, **kw):
            return super().process(o)

        @process.register(Expr)
        def _(self, o, **kw):
            return rules(self, o, kw)

    def plain(o, **kw):
        return rules(plain, o, kw)

    dom = mesh("triangle", 2)
    f, g = coef(dom, (), count=1910), coef(dom, (), count=1911)
    p = f + g
    q = f * g
    roots = {
        "shared_two_names": p * p,                     # negate=True and invert=True on the same node
        "shared_scale_values": p / p,                  # scale=2 and scale=3
        "subset_and_order": p ** 2 + ufl.sin(p) + p,   # {invert,negate}, {negate,invert}, {}
        "nested": (p * p) * (p / p) + q * (q + p),
        "terminal_contexts": f * f + f / f + f ** 2,
    }
    res = []
    tops = [dict(), dict(negate=True), dict(invert=True), dict(scale=2), dict(scale=True)]
    shared = T(compress=spec.get("compress", True))
    for name, e in roots.items():
        for top in tops:
            want = plain(e, **top)
            fresh = T(compress=spec.get("compress", True))(e, **top)
            res.append(tv.compare(f"{spec['name']}/{name}/{sorted(top.items())}/fresh", want, fresh, Env(), timeout=60,
                                  check_structure=False))
            reused = shared(e, **top)
            res.append(tv.compare(f"{spec['name']}/{name}/{sorted(top.items())}/reused-instance", want, reused, Env(), timeout=60,
                                  check_structure=False))
    return res


def handler_sets():
    from ufl.core.expr import Expr

    names = sorted({c._ufl_handler_name_ for c in Expr._ufl_all_classes_})
    # ancestors of the types with more than one Expr parent + generic roots
    core = ["expr", "operator", "terminal", "derivative", "coefficient_derivative", "coordinate_derivative",
            "base_form_operator", "base_form_derivative", "base_form_operator_derivative", "form_argument",
            "geometric_quantity", "math_function", "condition", "binary_condition", "restricted", "constant_value",
            "scalar_value", "real_value", "compound_tensor_operator", "compound_derivative", "base_form", "ufl_type"]
    core = [n for n in core if n in names or n == "ufl_type"]
    sets = [("ufl_type",)]
    sets += [(a,) for a in core if a != "ufl_type"]
    sets += [tuple(sorted(p)) for p in itertools.combinations([c for c in core if c in (
        "expr", "operator", "terminal", "derivative", "coefficient_derivative", "coordinate_derivative",
        "base_form_operator", "base_form_derivative", "form_argument", "base_form")], 2)]
    sets += [("expr", "operator", "terminal"), ("expr", "derivative", "coordinate_derivative", "coefficient_derivative"),
             ("operator", "base_form_operator", "base_form_derivative", "coefficient_derivative")]
    return sets


def dispatch_tables(spec):
    from ufl.algorithms.transformer import Transformer
    from ufl.core.expr import Expr
    from ufl.corealg.multifunction import MultiFunction

    base = {"mf": MultiFunction, "tr": Transformer}[spec["base"]]
    classes = list(Expr._ufl_all_classes_)
    sets = handler_sets()
    got, want = {}, {}
    for si, hs in enumerate(sets):
        ns = {}
        for h in hs:
            if spec["base"] == "mf":
                ns[h] = (lambda nm: lambda self, o, *ops: nm)(h)
            else:
                ns[h] = (lambda nm: lambda self, o: nm)(h)
            ns[h].__name__ = h
        if spec.get("derived") and len(hs) >= 2:
            # the algorithm class under test derives from another algorithm class that was instantiated (and
            # dispatched) before: it must build its own table, not reuse the parent's
            hb = hs[:1] if spec["derived"] == "parent_first" else hs
            B = type(f"B{si}", (base,), {h: ns[h] for h in hb})
            if spec["derived"] == "parent_first":
                B()
                A = type(f"D{si}", (B,), {h: ns[h] for h in hs[1:]})
            else:
                # child first, then the parent class itself is instantiated: the parent must not see the child's table
                D = type(f"D{si}", (B,), {"expr" if "expr" not in hs else "operator": (lambda self, o, *ops: "child")})
                D()
                A = B
        else:
            A = type(f"A{si}", (base,), ns)
        inst = A()
        for ci, c in enumerate(classes):
            hnd = inst._handlers[c._ufl_typecode_]
            fn = hnd if spec["base"] == "mf" else hnd[0]
            # nearest ancestor (in the MRO) whose handler name the algorithm object provides; the algorithm
            # base classes themselves provide some defaults (ufl_type, and terminal for Transformer)
            wname = "ufl_type"
            for k in c.mro():
                n = k.__dict__.get("_ufl_handler_name_") if isinstance(k, type(Expr)) else None
                if n is not None and hasattr(inst, n):
                    wname = n
                    break
            got[(si, ci)] = "ok" if fn == getattr(inst, wname) else "other:" + getattr(fn, "__name__", "?")
            want[(si, ci)] = "ok"
    names = sorted({v for v in list(got.values()) + list(want.values()) if v is not None})
    code = {n: i for i, n in enumerate(names)}

    def table(fname, t):
        body = "(- 1)"
        for (si, ci), v in t.items():
            body = f"(ite (and (= s {si}) (= c {ci})) {code.get(v, -1) if v in code else '(- 1)'} {body})"
        return f"(define-fun {fname} ((s Int) (c Int)) Int {body})"

    script = table("got", got) + "\n" + table("want", want) + "\n" + \
        f"(declare-const s Int)\n(declare-const c Int)\n(assert (and (<= 0 s) (< s {len(sets)}) (<= 0 c) (< c {len(classes)})))\n" \
        "(assert (not (= (got s c) (want s c))))\n(check-sat)\n"
    v, out = solve.run_z3(script, 120, want_model=True)
    sample = f"{spec['base']} dispatch: {len(classes)} types x {len(sets)} handler sets"
    if v == "unsat":
        return outcome(spec["name"], "proved", stage="tables", sample=sample, table_entries=len(got))
    if v == "sat":
        env = solve.parse_model(out)
        si, ci = int(env["s"]), int(env["c"])
        return outcome(spec["name"], "violated", sample=sample, witness={"type": classes[ci].__name__, "handlers": sets[si]},
                       detail=f"{classes[ci].__name__} with handlers {sets[si]} is not dispatched to its nearest "
                              f"ancestor's handler ({got[(si, ci)]})")
    return outcome(spec["name"], "inconclusive", detail="z3 unknown", sample=sample)


def specs(tier):
    S = []
    for f, pct in CONDS + CONDS3:
        S.append(dict(name=f, kind="xhair", func=f, post="_ == 0", pct=pct, task_timeout=pct * 2 + 100))
    S.append(dict(name="shape2_twin#twin", kind="xhair", func="shape2_twin", post="_ == 1", pct=120, twin=True,
                  task_timeout=400))
    S.append(dict(name="dispatch/MultiFunction", kind="tables", base="mf"))
    S.append(dict(name="dispatch/Transformer", kind="tables", base="tr"))
    S.append(dict(name="memoized-handler/instances", kind="memo", compress=True))
    S.append(dict(name="memoized-handler/instances-nocompress", kind="memo", compress=False))
    S.append(dict(name="dagtraverser-kwargs", kind="dagtraverser", compress=True, task_timeout=900))
    S.append(dict(name="dagtraverser-kwargs-nocompress", kind="dagtraverser", compress=False, task_timeout=900))
    for b in ("mf", "tr"):
        for d in ("parent_first", "child_first"):
            S.append(dict(name=f"dispatch/{'MultiFunction' if b == 'mf' else 'Transformer'}/derived-{d}", kind="tables", base=b, derived=d))
    return S


def main():
    tier = harness.tier_from_argv()
    t0 = time.time()
    results = harness.run_pool("checks.C19", "run", specs(tier))
    rc = harness.finish(
        PROP, tier, "proof", results, t0,
        functions=["ufl.corealg.traversal.{unique_pre_traversal,unique_post_traversal,cutoff_unique_post_traversal}",
                   "ufl.corealg.map_dag.{map_expr_dag,map_expr_dags}", "ufl.corealg.multifunction.MultiFunction.{__init__,"
                   "__call__}", "ufl.algorithms.transformer.Transformer.__init__ (handler tables)"],
        bounds={"DAG shapes": "2 leaves; every shape with <= 2 internal nodes and four families with 3 internal nodes, "
                              "unary / binary / cutoff-unary kinds, arbitrary sharing",
                "dispatch": "every registered expression type x ~70 handler-name sets (singletons, pairs over the "
                            "ancestors of multi-parent types, a few triples)",
                "outside": "larger DAGs; DAGTraverser (singledispatch on Python's own MRO)"},
        assumptions=["structural keys and the recursive reference application are computed by the harness",
                     "the solver's role in the E2 part is exhaustive path coverage of the shape space"],
        rule="CrossHair: 'Confirmed over all paths' per shape family; dispatch: z3 over symbolic indices into the "
             "(real table, MRO rule) pair",
        trusted_base=["units/c19_harness.py", "CrossHair 0.0.110 + z3", "vlib/solve.py"],
        extra={"checker_cmd": "crosshair check --report_all units.c19_harness.<shape family>; z3 for dispatch tables"},
    )
    sys.exit(rc)


if __name__ == "__main__":
    main()
