"""C22 — block extraction partitions mixed forms (E1).

run:    ufl.algorithms.formsplitter.{extract_blocks,FormSplitter}
oracle: block (i, j) == the form with the test function replaced by the embedding of its i-th
        sub-function and the trial function by the embedding of its j-th sub-function (all other
        components zero); `None` blocks must denote zero.  By bilinearity the blocks then sum to
        the form and block (i, j) depends only on sub-functions i and j.
"""

from __future__ import annotations

import itertools
import sys
import time

import ufl
from ufl import (Argument, FunctionSpace, TestFunction, TestFunctions, TrialFunction, TrialFunctions, avg, div, dot,
                 dS, ds, dx, extract_blocks, grad, inner, jump, split)

from checks.common import coef, mesh
from vlib import elements as el
from vlib import forms, harness, ring, solve
from vlib.denote import Denoter, Env
from vlib.harness import outcome
from vlib.ring import DenotationError

PROP = "C22"


def mixed_elements(cell, g):
    sym = el.Symmetric({(0, 0): 0, (0, 1): 1, (1, 0): 1, (1, 1): 2}, [el.P(cell, 1)] * 3)
    return {
        "P2v_P1": el.Mixed([el.P(cell, 2, (g,)), el.P(cell, 1)]),
        "P1_P1_P1": el.Mixed([el.P(cell, 1), el.P(cell, 1), el.P(cell, 1)]),
        "RT_DG": el.Mixed([el.RT(cell), el.DGL2(cell)]),
        "Sym_P1v_P1": el.Mixed([sym, el.P(cell, 1, (g,)), el.P(cell, 1)]),
        "P1_Sym": el.Mixed([el.P(cell, 1), sym]),
        "N1_P1v": el.Mixed([el.N1(cell), el.P(cell, 1, (g,))]),
        "P1t_P1": el.Mixed([el.P(cell, 1, (g, g)), el.P(cell, 1)]),
    }


def form_for(kind, v, u, f, dom):
    """A (bi)linear form in the flat components of mixed arguments v (test) and u (trial)."""
    n = v.ufl_shape[0]
    i = ufl.Index()
    if kind == "mass":
        return inner(u, v) * dx
    if kind == "weighted":
        return sum((k + 1) * u[k] * v[(k + 1) % n] for k in range(n)) * f * dx + u[0] * v[n - 1] * ds
    if kind == "grad":
        return inner(grad(u), grad(v)) * dx + f * u[i] * v[i] * dx(1)
    if kind == "facet":
        return jump(u[0]) * avg(v[n - 1]) * dS + inner(avg(u), jump(v)) * dS + u("+")[0] * v("-")[0] * dS
    if kind == "linear":
        return f * v[0] * dx + sum((k + 2) * v[k] for k in range(n)) * f * ds + dot(grad(f), grad(v[n - 1])) * dx
    if kind == "linear_facet":
        return avg(f) * jump(v[0]) * dS + f("+") * v("-")[n - 1] * dS
    raise KeyError(kind)


def run(spec):
    name = spec["name"]
    dom = mesh(spec["cell"], spec.get("gdim"))
    cell, g = dom.ufl_cell(), dom.geometric_dimension
    f = coef(dom, (), count=950)
    kind = spec["kind"]
    linear = kind.startswith("linear")
    res = []
    if spec["space"] == "mfs":
        subs = [FunctionSpace(dom, el.P(cell, 1)), FunctionSpace(dom, el.P(cell, 2)), FunctionSpace(dom, el.P(cell, 1, (g,)))][: spec["n"]]
        MS = ufl.MixedFunctionSpace(*subs)
        vs, us = TestFunctions(MS), TrialFunctions(MS)
        sc = lambda a: a if a.ufl_shape == () else a[0]  # noqa: E731
        if kind == "upper":
            # only couplings whose trial part is above the test part (an upper-triangular sub-form on its own)
            F = sum((k + 2 + 3 * l) * sc(us[l]) * sc(vs[k]) * f * dx for k in range(len(subs)) for l in range(len(subs)) if l > k)
        elif kind == "lower":
            F = sum((k + 2 + 3 * l) * sc(us[l]) * sc(vs[k]) * f * dx for k in range(len(subs)) for l in range(len(subs)) if l < k)
        elif linear:
            F = sum(((k + 1) * f * sc(vs[k]) * dx for k in range(len(subs))), f * sc(vs[0]) * ds)
            if kind == "linear_facet":
                F = F + avg(f) * jump(sc(vs[len(subs) - 1])) * dS
        else:
            F = sum((k + 1 + 3 * l) * sc(us[l]) * sc(vs[k]) * f * dx for k in range(len(subs)) for l in range(len(subs)) if (k + l) % 2 == 0 or k == l)
            F = F + sc(us[0]) * sc(vs[len(subs) - 1]) * ds
            if kind == "facet":
                F = F + jump(sc(us[0])) * avg(sc(vs[0])) * dS + avg(sc(us[len(subs) - 1])) * jump(sc(vs[0])) * dS
        nblocks = ncols = len(subs)
        targs = list(vs)
        uargs = list(us)

        def overrides(i, j):
            m = {}
            for k, a in enumerate(targs):
                if k != i:
                    m[a] = "zero"
            for k, a in enumerate(uargs):
                if j is None or k != j:
                    m[a] = "zero"
            return m
    else:
        E = mixed_elements(cell, g)[spec["elem"]]
        # rectangular systems: the trial space may be a different mixed element (or a plain one: a single column)
        plain_elems = {"P1": el.P(cell, 1), "P2v": el.P(cell, 2, (g,))}
        tname = spec.get("trial_elem")
        Eu = E if tname is None else (plain_elems[tname] if tname in plain_elems else mixed_elements(cell, g)[tname])
        V = FunctionSpace(dom, E)
        v, u = TestFunction(V), TrialFunction(FunctionSpace(dom, Eu))
        if kind == "rect":
            nv = v.ufl_shape[0]
            uc = [u] if u.ufl_shape == () else [u[l] for l in range(u.ufl_shape[0])]
            F = sum((1 + k + 3 * l) * v[k] * uc[l] for k in range(nv) for l in range(len(uc))) * f * dx + uc[-1] * v[0] * ds
        else:
            F = form_for(kind, v, u, f, dom)
        nblocks = len(E.sub_elements)
        ncols = max(len(Eu.sub_elements), 1)

        def layout(El):
            subs = list(El.sub_elements) or [El]
            sizes = []
            for s in subs:
                sh = FunctionSpace(dom, s).value_shape
                n = 1
                for q in sh:
                    n *= q
                sizes.append((n, sh))
            offs = [0]
            for n, _ in sizes:
                offs.append(offs[-1] + n)
            return offs, sizes, [FunctionSpace(dom, s) for s in subs]

        lay = {v: layout(E), u: layout(Eu)}
        repl = spec.get("replace_argument", True)

        def overrides(i, j):
            m = {}
            for a, k in ((v, i), (u, j)):
                if a is u and linear:
                    continue
                if a is u and not Eu.sub_elements:
                    continue     # a plain trial function is left as it is
                offs, sizes, spaces = lay[a]
                m[a] = ("embed", k, offs, sizes, spaces, repl)
            return m
    r0 = repr(F)
    try:
        if spec["space"] == "mfs":
            blocks = extract_blocks(F)
        else:
            blocks = extract_blocks(F, replace_argument=repl) if not spec.get("single") else None
    except Exception as ex:
        return outcome(name, "violated", detail=f"extract_blocks raised {type(ex).__name__}: {str(ex)[:150]}",
                       sample=str(F)[:200], witness={"exception": repr(ex)[:200]})
    if repr(F) != r0:
        return outcome(name, "violated", detail="input form mutated", witness={"structural": "mutated"})
    sample = f"{spec['space']} {spec.get('elem', spec.get('n'))} {kind}: {str(F)[:160]}"
    if blocks is not None:
        # shape of the result: one block per sub-space (rank 1) / an n x n table (rank 2); entries are forms or None
        def is_block(b):
            return b is None or isinstance(b, ufl.Form) or b == 0

        good = isinstance(blocks, (tuple, list)) and len(blocks) == nblocks and (
            all(is_block(b) for b in blocks) if linear else
            all(isinstance(row, (tuple, list)) and len(row) == ncols and all(is_block(b) for b in row) for row in blocks))
        if not good:
            return outcome(name, "violated", detail=f"extract_blocks returned a structure that is not one block per sub-space "
                           f"({'rank 1: ' + str(nblocks) if linear else 'rank 2: ' + str(nblocks) + ' x ' + str(ncols)}): "
                           f"{type(blocks).__name__} of {[type(b).__name__ for b in blocks][:6]}", sample=sample,
                           witness={"structural": "block table shape"})
    idxs = [(i, None) for i in range(nblocks)] if linear else list(itertools.product(range(nblocks), range(ncols)))
    for (i, j) in idxs:
        ring.reset()
        if spec["space"] != "mfs" and spec.get("single"):
            try:
                blk = extract_blocks(F, i, j, replace_argument=repl)
            except Exception as ex:
                res.append(outcome(f"{name}/block{i},{j}", "violated", detail=f"raised {type(ex).__name__}: {ex}"[:200],
                                   witness={"exception": repr(ex)[:200]}))
                continue
            if blk is not None and blk.empty():
                blk = None
        else:
            blk = blocks[i] if linear else blocks[i][j]
        cmode = False
        env_o = Env(complex_mode=cmode)
        den_o = Denoter(env_o)
        plain = Denoter(Env(complex_mode=cmode))
        zero = env_o.const(0)
        for a, how in overrides(i, j).items():
            if how == "zero":
                env_o.arg_override[a] = lambda comp, derivs, side, z=zero: z
            else:
                _, k, offs_, sizes_, spaces, repl_ = how

                def ov(comp, derivs, side, a=a, k=k, offs_=offs_, sizes_=sizes_, spaces=spaces, repl_=repl_, z=zero):
                    (c,) = comp
                    if not (offs_[k] <= c < offs_[k + 1]):
                        return z
                    if not repl_:
                        return plain.env.symbol(a, comp, tuple(derivs), side)
                    sub = Argument(spaces[k], a.number(), part=a.part())
                    loc = c - offs_[k]
                    sh = sizes_[k][1]
                    multi = []
                    for s_ in reversed(sh):
                        multi.append(loc % s_)
                        loc //= s_
                    return plain.env.symbol(sub, tuple(reversed(multi)), tuple(derivs), side)

                env_o.arg_override[a] = ov
        try:
            want = forms.form_value(den_o, F)
            got = forms.form_value(plain, blk) if blk is not None else {}
        except DenotationError as ex:
            res.append(outcome(f"{name}/block{i},{j}", "inconclusive", detail=f"denotation: {ex}", sample=sample))
            continue
        keys = sorted(set(want) | set(got))
        pairs = forms.pairs_for(keys, want, got, zero)
        r = solve.prove_all_zero(solve.flatten_diffs(pairs), timeout=60, label=name)
        ok, bad = solve.discharge_lemmas()
        st = r.status if not (r.status == "proved" and bad) else "inconclusive"
        res.append(outcome(f"{name}/block{i},{j}", st, stage=r.stage, witness=r.witness, sample=sample,
                           detail=("block is None" if blk is None else "") + (" values differ" if st == "violated" else "")))
        if spec.get("twin") and (i, j) in ((0, 0), (0, None)) and blk is not None:
            two = env_o.const(2)
            r2 = solve.prove_all_zero(solve.flatten_diffs([(a_ * two, b_) for a_, b_ in pairs]), timeout=30)
            res.append(outcome(f"{name}/block{i},{j}#twin", r2.status, twin=True))
    return res


def specs(tier):
    S = []
    cells = [("triangle", 2)] + ([("triangle", 3), ("tetrahedron", 3)] if tier == "thorough" else [])
    for cell, g in cells:
        for elem in mixed_elements(ufl.triangle, 2):
            if elem.startswith(("Sym", "P1_Sym")) and (cell, g) != ("triangle", 2):
                continue
            for kind in ("mass", "weighted", "grad", "facet", "linear", "linear_facet"):
                for repl in (True, False):
                    for single in (False, True):
                        if single and kind not in ("weighted", "linear"):
                            continue
                        S.append(dict(name=f"{cell}{g}/me/{elem}/{kind}/repl={repl}/single={single}", cell=cell, gdim=g,
                                      space="me", elem=elem, kind=kind, replace_argument=repl, single=single,
                                      twin=(elem == "P2v_P1" and kind == "mass" and repl and not single)))
        for n in (2, 3):
            for kind in ("bilinear", "facet", "linear", "linear_facet", "upper", "lower"):
                S.append(dict(name=f"{cell}{g}/mfs/n={n}/{kind}", cell=cell, gdim=g, space="mfs", n=n, kind=kind,
                              twin=(n == 2 and kind == "bilinear")))
    # rectangular systems (test and trial spaces with different numbers of sub-elements; a plain trial space)
    for elem, telem in (("P2v_P1", "P1_P1_P1"), ("P1_P1_P1", "P2v_P1"), ("Sym_P1v_P1", "RT_DG"), ("P2v_P1", "P1"), ("P1_P1_P1", "P2v")):
        for repl in (True, False):
            for single in (False, True):
                S.append(dict(name=f"triangle2/me/{elem}x{telem}/rect/repl={repl}/single={single}", cell="triangle", gdim=2,
                              space="me", elem=elem, trial_elem=telem, kind="rect", replace_argument=repl, single=single))
    S.append(dict(name="triangle3/me/RT_DG/mass/repl=False/single=False", cell="triangle", gdim=3, space="me",
                  elem="RT_DG", kind="mass", replace_argument=False, single=False))
    S.append(dict(name="triangle3/me/N1_P1v/weighted/repl=False/single=False", cell="triangle", gdim=3, space="me",
                  elem="N1_P1v", kind="weighted", replace_argument=False, single=False))
    return S


def main():
    tier = harness.tier_from_argv()
    t0 = time.time()
    results = harness.run_pool("checks.C22", "run", specs(tier))
    rc = harness.finish(
        PROP, tier, "translation_validation", results, t0,
        functions=["ufl.algorithms.formsplitter.{extract_blocks,FormSplitter}", "ufl.formoperators.extract_blocks"],
        bounds={"mixed elements": sorted(mixed_elements(ufl.triangle, 2)), "MixedFunctionSpace": "2 and 3 sub-spaces",
                "forms": "mass, weighted cross terms, grad-grad with subdomain, interior facet (both sides), linear",
                "options": "replace_argument True/False, all blocks at once and one block at a time",
                "outside": "arity > 2; MeshSequence"},
        assumptions=["real mode; argument jets are independent symbols"],
        rule="one obligation per block of each (space, form, options): z3 proves block == form with the arguments "
             "replaced by the embedded sub-functions, for all values; None blocks must be zero",
        trusted_base=["vlib/denote.py", "vlib/forms.py", "z3"],
    )
    sys.exit(rc)


if __name__ == "__main__":
    main()
