"""C20 — type dispatch stays valid when new expression types are registered later (E2, CrossHair).

run:    MultiFunction.__init__/__call__ and Transformer.__init__/visit (handler caches), ufl_type registration,
        driven by units/c20_harness.dispatch_state from a directly constructed registry state
sym:    t (which type is dispatched); per condition are fixed: (k, j) = number of types registered before / after
        the first use of the algorithm classes, chain (late types derive from each other or from Operator) and
        order (instantiation order of the algorithm classes after registration): 3 x 3 x 2 x 2 conditions
        (CrossHair needs ~8 s per path here because types are created under its tracer)
post:   every fresh algorithm instance dispatches to the nearest ancestor's handler (incl. handlers named after
        late types) and agrees with an instance built from pristine caches
"""

from __future__ import annotations

import sys
import time

from vlib import harness, xhair

PROP = "C20"


def run_library(spec):
    """Concrete side check in a fresh interpreter (registering types is global): see units/c20_library.py."""
    import os
    import subprocess

    from vlib.harness import ROOT, outcome

    py = os.path.join(ROOT, ".venv", "bin", "python")
    env = dict(os.environ, PYTHONPATH=os.environ.get("PYTHONPATH") or ROOT)
    try:
        p = subprocess.run([py, os.path.join(ROOT, "units", "c20_library.py")], capture_output=True, text=True, env=env, timeout=300)
    except subprocess.TimeoutExpired:
        return outcome(spec["name"], "inconclusive", detail="timed out")
    for line in p.stdout.splitlines():
        if line.startswith("RESULT"):
            ok = line.split()[1] == "True"
            return outcome(spec["name"], "proved" if ok else "violated", stage="concrete",
                           detail="" if ok else line[len("RESULT False "):], witness=None if ok else {"problems": line[13:]},
                           sample="apply_geometry_lowering on geometric quantity types registered after its first use")
    return outcome(spec["name"], "inconclusive", detail="side check did not run: " + (p.stderr.strip().splitlines() or ["?"])[-1][:200])


def run(spec):
    if spec.get("kind") == "library":
        return run_library(spec)
    return xhair.check_condition(spec["name"], "units.c20_harness", spec["func"], spec["concrete"],
                                 spec["post"], per_condition_timeout=spec.get("pct", 150), twin=spec.get("twin", False),
                                 sample=spec.get("sample"))


def specs(tier):
    S = []
    for k in range(3):
        for j in range(3):
            for c in range(2):
                for o in range(2):
                    fn = f"check_k{k}_j{j}_c{c}_o{o}"
                    S.append(dict(name=f"k={k}/j={j}/chain={c}/order={o}", func=fn, concrete=fn, post="_ == 0",
                                  sample=f"registry state: {k} types registered before first use, {j} after, chain={c}, "
                                         f"order={o}; dispatched type index t in [-1,3] symbolic", pct=200, task_timeout=500))
    S.append(dict(name="library/geometry-lowering-late-types", kind="library", task_timeout=400))
    S.append(dict(name="twin#twin", func="check_dispatch_twin", concrete="check_dispatch_twin", post="_ == 1", twin=True,
                  pct=90, task_timeout=300))
    return S


def main():
    tier = harness.tier_from_argv()
    t0 = time.time()
    results = harness.run_pool("checks.C20", "run", specs(tier))
    rc = harness.finish(
        PROP, tier, "proof", results, t0,
        functions=["ufl.corealg.multifunction.MultiFunction.{__init__,__call__} (_handlers_cache)",
                   "ufl.algorithms.transformer.Transformer.{__init__,visit} (_handlers_cache)",
                   "ufl.core.ufl_type.{ufl_type,update_ufl_type_attributes}"],
        bounds={"k (types registered before first use)": "0..2", "j (registered after)": "0..2", "t": "-1..3", "chain": "0..1",
                "order": "0..1", "algorithms": "2 MultiFunction and 2 Transformer subclasses with handlers for expr / "
                "operator / terminal and handlers named after late types",
                "outside": "more than 4 late types; DAGTraverser (singledispatch based, no typecode tables)"},
        assumptions=["one step from every state covers histories of any length provided the caches depend only on "
                     "(k, j): the harness compares with a pristine-cache instance in every state",
                     "registry state is snapshotted/restored by the harness (no hook in /repo)"],
        rule="one CrossHair condition per (k, j, chain, order); verdict 'Confirmed over all paths' over the symbolic t; "
             "a counterexample is replayed concretely in a fresh interpreter",
        trusted_base=["units/c20_harness.py (nearest-ancestor rule from the MRO)", "CrossHair 0.0.110 + z3"],
        extra={"checker_cmd": "crosshair check --report_all --per_condition_timeout 150 units.c20_harness.check_k<K>_j<J>_c<C>_o<O>"},
    )
    sys.exit(rc)


if __name__ == "__main__":
    main()
