"""C05, E2 part: ufl.index_combination_utils under CrossHair (units/c05_harness.py).

run:    merge_unique_indices, merge_overlapping_indices, remove_indices, unique_sorted_indices - the free-index
        bookkeeping executed by every operator constructor
oracle: set-level specifications written with comparisons only (sorted, union / symmetric difference /
        intersection in operand order, dimensions looked up by id, shape of removed indices in request order)
bound:  tuples of <= 3 (remove / unique_sorted: <= 4) ids in [0, 40], dimensions in [1, 4], all symbolic
"""

from __future__ import annotations

from vlib import harness, xhair

DESCRIPTION = "CrossHair, symbolic ids in [0,40] and dims in [1,4], tuples of <= 3-4 entries: Confirmed over all paths"
CONDS = [("merge_unique", 400), ("merge_overlapping", 400), ("remove", 300), ("unique_sorted", 200)]


def run(spec):
    return xhair.check_condition(spec["name"], "units.c05_harness", spec["func"], spec["func"], spec["post"],
                                 per_condition_timeout=spec["pct"], twin=spec.get("twin", False),
                                 sample=f"crosshair check units.c05_harness.{spec['func']}")


def specs(tier):
    S = [dict(name=f"index_utils/{f}", func=f, post="_ == 0", pct=pct, task_timeout=int(pct * 1.5) + 120) for f, pct in CONDS]
    S.append(dict(name="index_utils/twin#twin", func="twin", post="_ == 0", pct=120, twin=True, task_timeout=300))
    return S


def run_all(tier):
    return harness.run_pool("checks.C05u", "run", specs(tier))
