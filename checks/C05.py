"""C05 — operators build expressions with the mathematically intended value (E1 part).

run:    the public constructors/operators of the language (ufl.* functions, Expr
        operator overloads, as_tensor/as_vector/as_matrix, indexing and slicing)
        on operand skeletons; every `__new__` shortcut, `_mult`, `_getitem` and
        free-index merge is executed for real
oracle: the *requested* operation written directly over the operand values
        (SPEC functions below), not over the expression that was built
sym:    every operand entry
The E2 part (index-combination utilities under CrossHair) is in checks/C05u.py
and runs as part of this check.
"""

from __future__ import annotations

import itertools
import sys
import time
from fractions import Fraction

import ufl
import ufl.classes as C
from ufl import (And, Not, Or, as_matrix, as_tensor, as_ufl, as_vector, cofac, conditional, conj, cross,
                 det, dev, diag, diag_vector, dot, elem_div, elem_mult, eq, ge, gt, imag, inner, inv, le,
                 lt, max_value, min_value, ne, outer, perp, real, sign, skew, sym, tr, transpose, zero)
from ufl.core.multiindex import Index

from checks.common import coef, mesh
from vlib import denote, harness, ring, solve
from vlib import terms as tm
from vlib.denote import Denoter, Env
from vlib.harness import outcome
from vlib.ring import Cx, DenotationError, Frac

PROP = "C05"

I = [Index(count=9000 + k) for k in range(4)]  # a fixed pool of index objects


# --------------------------------------------------------------------------
# operand pool
# --------------------------------------------------------------------------


def operand(dom, shape, form, n):
    """form: coef | zero | sum | list | ctperm | lit"""
    shape = tuple(shape)
    A = coef(dom, shape, count=200 + 10 * n)
    if form == "coef":
        return A
    if form == "zero":
        return zero(*shape) if shape else zero()
    if form == "sum":
        return A + coef(dom, shape, count=201 + 10 * n)
    if form == "scaled":
        return 2 * A
    if form == "list":
        if len(shape) == 1:
            return as_vector([A[k] for k in range(shape[0])][::-1])  # reversed on purpose
        if len(shape) == 2:
            return as_matrix([[A[i, j] * (i + 1) for j in range(shape[1])] for i in range(shape[0])])
    if form == "ctperm":
        # component tensor that permutes the axes of a coefficient of the permuted shape
        if len(shape) == 2:
            B = coef(dom, shape[::-1], count=202 + 10 * n)
            i, j = I[2], I[3]
            return as_tensor(B[j, i], (i, j))
        if len(shape) == 1:
            i = I[3]
            return as_tensor(A[i] * 3, (i,))
    if form == "lit" and shape == ():
        return as_ufl([2, -1, 0.5, 3][n % 4])
    if form == "litv" and len(shape) == 1:
        return as_vector([as_ufl(k + 1) for k in range(shape[0])])
    raise KeyError((shape, form))


# --------------------------------------------------------------------------
# SPEC: (built expression, expected shape, expected free indices {count: dim}, value fn)
# --------------------------------------------------------------------------


class Ctx:
    def __init__(self, den):
        self.den = den

    def v(self, x, comp=(), idx=None):
        return self.den.ev(x, tuple(comp), idx or {}, (), None)

    def c(self, q):
        return self.den.env.const(q)


def fi_of(x):
    return dict(zip(x.ufl_free_indices, x.ufl_index_dimensions))


def merged_fi(a, b):
    """Free indices of a product: union minus the repeated ones (which are summed)."""
    fa, fb = fi_of(a), fi_of(b)
    rep = {k: fa[k] for k in fa if k in fb}
    out = {k: d for k, d in {**fa, **fb}.items() if k not in rep}
    return out, rep


def sum_over(rep, idx, f):
    keys = sorted(rep)
    r = None
    for vals in itertools.product(*[range(rep[k]) for k in keys]):
        idx2 = dict(idx)
        idx2.update(zip(keys, vals))
        t = f(idx2)
        r = t if r is None else r + t
    return r


def spec_add(cx, a, b, sgn=1):
    def val(comp, idx):
        x, y = cx.v(a, comp, idx), cx.v(b, comp, idx)
        return x + y if sgn > 0 else x - y

    return a.ufl_shape, fi_of(a), val


def spec_mul(cx, a, b):
    sa, sb = a.ufl_shape, b.ufl_shape
    fi, rep = merged_fi(a, b)
    if sa == () or sb == ():
        shape = sa or sb

        def val(comp, idx):
            return sum_over(rep, idx, lambda i2: cx.v(a, comp if sa else (), i2) * cx.v(b, comp if sb else (), i2))

        return shape, fi, val
    # matrix-vector / matrix-matrix
    shape = sa[:-1] + sb[1:]

    def val(comp, idx):
        ca, cb = comp[: len(sa) - 1], comp[len(sa) - 1:]
        r = None
        for k in range(sa[-1]):
            t = cx.v(a, ca + (k,), idx) * cx.v(b, (k,) + cb, idx)
            r = t if r is None else r + t
        return r

    return shape, fi, val


def spec_div(cx, a, b):
    fi, rep = merged_fi(a, b)

    def val(comp, idx):
        return sum_over(rep, idx, lambda i2: cx.v(a, comp, i2) / cx.v(b, (), i2))

    return a.ufl_shape, fi, val


def expand_items(items, rank):
    """Expand Ellipsis; returns list of per-axis items."""
    items = list(items)
    if any(it is Ellipsis for it in items):
        k = items.index(Ellipsis)
        items = items[:k] + [slice(None)] * (rank - (len(items) - 1)) + items[k + 1:]
    return items


def spec_getitem(cx, A, items):
    items = expand_items(items, len(A.ufl_shape))
    sh = A.ufl_shape
    slice_axes = [k for k, it in enumerate(items) if isinstance(it, slice)]
    idx_axes = {}
    for k, it in enumerate(items):
        if isinstance(it, Index):
            idx_axes.setdefault(it.count(), []).append(k)
    fiA = fi_of(A)
    rep = {}
    free = dict(fiA)
    for c, axes in idx_axes.items():
        if len(axes) > 1 or c in fiA:
            rep[c] = sh[axes[0]]
            free.pop(c, None)
        else:
            free[c] = sh[axes[0]]
    shape = tuple(sh[k] for k in slice_axes)

    def val(comp, idx):
        def at(i2):
            c = []
            si = iter(comp)
            for k, it in enumerate(items):
                if isinstance(it, slice):
                    c.append(next(si))
                elif isinstance(it, Index):
                    c.append(i2[it.count()])
                else:
                    c.append(int(it))
            return cx.v(A, tuple(c), i2)

        return sum_over(rep, idx, at)

    return shape, free, val


# --------------------------------------------------------------------------
# cases
# --------------------------------------------------------------------------


def matrix_of(cx, A, idx):
    return [[cx.v(A, (i, j), idx) for j in range(A.ufl_shape[1])] for i in range(A.ufl_shape[0])]


def build_case(spec, dom, cx):
    """Returns (built, shape, free, val, operands)"""
    k = spec["case"]
    f = spec.get("forms", ("coef", "coef", "coef"))
    sh = [tuple(s) for s in spec.get("shapes", ())]
    ops = [operand(dom, s, f[n], n) for n, s in enumerate(sh)]
    if spec.get("free"):
        # turn tensor operands into scalar expressions with free indices from the pool
        pat = spec["free"]  # e.g. ("ij", "jk"): index letters per operand
        letters = {ch: I["ijkl".index(ch)] for ch in "ijkl"}
        new = []
        for o, p in zip(ops, pat):
            if p:
                new.append(o[tuple(letters[ch] for ch in p)])
            else:
                new.append(o)
        ops = new
    a = ops[0] if ops else None
    b = ops[1] if len(ops) > 1 else None
    c = ops[2] if len(ops) > 2 else None
    one = lambda: cx.c(1)  # noqa: E731
    if k == "add":
        return (a + b,) + spec_add(cx, a, b) + (ops,)
    if k == "sub":
        return (a - b,) + spec_add(cx, a, b, -1) + (ops,)
    if k == "mul":
        return (a * b,) + spec_mul(cx, a, b) + (ops,)
    if k == "div":
        return (a / b,) + spec_div(cx, a, b) + (ops,)
    if k == "neg":
        return (-a, a.ufl_shape, fi_of(a), lambda comp, idx: -cx.v(a, comp, idx), ops)
    if k == "abs":
        return (abs(a), a.ufl_shape, fi_of(a), lambda comp, idx: ring.absval(cx.v(a, comp, idx)), ops)
    if k == "idempotent":
        # an operator applied to its own result where the constructor returns the existing object: the inner object
        # is an operand of this case (its integrity is checked after the construction)
        which = spec["which"]
        if which == "abs_abs":
            inner_ = abs(a)
            return (abs(inner_), a.ufl_shape, fi_of(a), lambda comp, idx: ring.absval(cx.v(a, comp, idx)), ops + [inner_])
        if which == "abs_conj_abs":
            inner_ = abs(conj(a))
            return (abs(conj(inner_)), a.ufl_shape, fi_of(a), lambda comp, idx: ring.absval(cx.v(a, comp, idx)), ops + [inner_])
        if which == "det_det":
            inner_ = det(a)
            return (det(inner_), (), {}, lambda comp, idx: cx.v(inner_, (), idx), ops + [inner_])
        if which == "inner_inner_one":
            inner_ = inner(a, b)
            return (inner(inner_, as_ufl(1.0)), (), {}, lambda comp, idx: cx.v(inner_, (), idx), ops + [inner_])
        if which == "outer_one_outer":
            inner_ = outer(a, b)
            return (outer(as_ufl(1.0), inner_), inner_.ufl_shape, {}, lambda comp, idx: cx.v(inner_, comp, idx), ops + [inner_])
        if which == "conj_conj":
            inner_ = conj(a)
            return (conj(inner_), a.ufl_shape, fi_of(a), lambda comp, idx: cx.v(a, comp, idx), ops + [inner_])
        if which == "neg_neg":
            inner_ = -a
            return (-inner_, a.ufl_shape, fi_of(a), lambda comp, idx: cx.v(a, comp, idx), ops + [inner_])
        if which == "transpose_transpose":
            inner_ = transpose(a)
            return (transpose(inner_), a.ufl_shape, {}, lambda comp, idx: cx.v(a, comp, idx), ops + [inner_])
        raise KeyError(which)
    if k == "pow":
        n = spec["n"]
        e = as_ufl(n)
        if isinstance(n, int):
            return (a**e, (), fi_of(a), lambda comp, idx: cx.v(a, (), idx) ** n, ops)
        q = Fraction(n)
        return (a**e, (), fi_of(a),
                lambda comp, idx: ring.sqrtval(cx.v(a, (), idx)) ** int(q * 2), ops)
    if k == "getitem":
        items = []
        for it in spec["items"]:
            if it == ":":
                items.append(slice(None))
            elif it == "...":
                items.append(Ellipsis)
            elif isinstance(it, str):
                items.append(I["ijkl".index(it)])
            else:
                items.append(it)
        built = a[tuple(items)]
        return (built,) + spec_getitem(cx, a, items) + (ops,)
    if k == "getitem_ctlist":
        # indexing a ComponentTensor over an indexed ListTensor whose entries carry free indices
        # (ComponentTensor._simplify_indexed looks through the list); operands a, b of equal shape
        letters = {ch: I["ijkl".index(ch)] for ch in "ijkl"}
        r = len(a.ufl_shape)
        inner_idx = tuple(letters[ch] for ch in "ij"[:r])
        L = as_vector([a[inner_idx], b[inner_idx]])
        kk = letters["k"]
        T = as_tensor(L[kk], tuple(letters[ch] for ch in spec["layout"]))
        items = [letters["l"] if it == "l" else (slice(None) if it == ":" else it) for it in spec["items"]]
        built = T[tuple(items)]
        return (built,) + spec_getitem(cx, T, items) + ([a, b],)
    if k == "getitem_sum":
        # indexing a tensor-valued sum with (among others) the very Index object the sum binds
        letters = {ch: I["ijkl".index(ch)] for ch in "ijkl"}
        j = letters["j"]
        S_ = a[j] * b[(j,) + (slice(None),) * (len(b.ufl_shape) - 1)]       # sum_j a[j] b[j, ...]: shape b.shape[1:]
        items = [letters[it] if isinstance(it, str) and it in letters else (slice(None) if it == ":" else it) for it in spec["items"]]
        built = S_[tuple(items)]
        return (built,) + spec_getitem(cx, S_, items) + ([a, b, S_],)
    if k == "as_tensor":
        # as_tensor(A[perm of indices], (i,j,..)) : every permutation pair
        p_in, p_out = spec["pin"], spec["pout"]
        letters = {ch: I["ijkl".index(ch)] for ch in "ijkl"}
        inner_e = a[tuple(letters[ch] for ch in p_in)]
        built = as_tensor(inner_e, tuple(letters[ch] for ch in p_out))
        dims = {ch: a.ufl_shape[p_in.index(ch)] for ch in p_in}
        shape = tuple(dims[ch] for ch in p_out)

        def val(comp, idx):
            m = dict(zip(p_out, comp))
            return cx.v(a, tuple(m[ch] for ch in p_in), idx)

        return (built, shape, {}, val, ops)
    if k == "list_of_ct":
        # [as_tensor(A[r, i, j], perm) for r]: the F4 family, all permutations
        p_out = spec["pout"]
        letters = {ch: I["ijkl".index(ch)] for ch in "ijkl"}
        rows = [as_tensor(a[(r,) + tuple(letters[ch] for ch in "ij"[: len(a.ufl_shape) - 1])],
                          tuple(letters[ch] for ch in p_out)) for r in range(a.ufl_shape[0])]
        built = as_tensor(rows)
        pin = "ij"[: len(a.ufl_shape) - 1]
        dims = {ch: a.ufl_shape[1 + pin.index(ch)] for ch in pin}
        shape = (a.ufl_shape[0],) + tuple(dims[ch] for ch in p_out)

        def val(comp, idx):
            m = dict(zip(p_out, comp[1:]))
            return cx.v(a, (comp[0],) + tuple(m[ch] for ch in pin), idx)

        return (built, shape, {}, val, ops)
    if k == "list_of_indexed":
        # [v[j,0], v[j,1], ...] and friends: first ListTensor shortcut
        which = spec["which"]
        j = I[1]
        if which == "last_fixed":
            built = as_vector([a[j, kk] for kk in range(a.ufl_shape[1])])
            return (built, (a.ufl_shape[1],), {j.count(): a.ufl_shape[0]},
                    lambda comp, idx: cx.v(a, (idx[j.count()], comp[0]), idx), ops)
        if which == "last_fixed_rev":
            n = a.ufl_shape[1]
            built = as_vector([a[j, n - 1 - kk] for kk in range(n)])
            return (built, (n,), {j.count(): a.ufl_shape[0]},
                    lambda comp, idx: cx.v(a, (idx[j.count()], n - 1 - comp[0]), idx), ops)
        if which == "first_fixed":
            built = as_vector([a[kk, j] for kk in range(a.ufl_shape[0])])
            return (built, (a.ufl_shape[0],), {j.count(): a.ufl_shape[1]},
                    lambda comp, idx: cx.v(a, (comp[0], idx[j.count()]), idx), ops)
        if which == "plain":
            built = as_vector([a[kk] for kk in range(a.ufl_shape[0])])
            return (built, a.ufl_shape, {}, lambda comp, idx: cx.v(a, comp, idx), ops)
        if which == "rows":
            built = as_tensor([a[kk, :] for kk in range(a.ufl_shape[0])])
            return (built, a.ufl_shape, {}, lambda comp, idx: cx.v(a, comp, idx), ops)
        if which == "cols":
            built = as_tensor([a[:, kk] for kk in range(a.ufl_shape[1])])
            return (built, a.ufl_shape[::-1], {}, lambda comp, idx: cx.v(a, comp[::-1], idx), ops)
        if which == "partial":
            built = as_vector([a[kk] for kk in range(a.ufl_shape[0] - 1)])
            return (built, (a.ufl_shape[0] - 1,), {}, lambda comp, idx: cx.v(a, comp, idx), ops)
    if k == "cond":
        rel = spec["rel"]
        fn = {"lt": lt, "gt": gt, "le": le, "ge": ge, "eq": eq, "ne": ne}[rel]
        built = conditional(fn(a, b), c, ops[3] if len(ops) > 3 else -c)
        other = ops[3] if len(ops) > 3 else None

        def val(comp, idx):
            x, y = cx.den.real_primal(cx.v(a, (), idx)), cx.den.real_primal(cx.v(b, (), idx))
            if rel in ("eq", "ne") and cx.den.env.complex_mode:
                cond = Cx.of(cx.v(a, (), idx)).eq(Cx.of(cx.v(b, (), idx)))
                cond = cond if rel == "eq" else tm.not_(cond)
            else:
                cond = {"lt": x.lt(y), "gt": y.lt(x), "le": x.le(y), "ge": y.le(x), "eq": x.eq(y),
                        "ne": tm.not_(x.eq(y))}[rel]
            t = cx.v(c, comp, idx)
            f_ = cx.v(other, comp, idx) if other is not None else -cx.v(c, comp, idx)
            return ring.ite(cond, t, f_)

        return (built, c.ufl_shape, fi_of(c), val, ops)
    if k == "logic":
        which = spec["which"]
        p, q = lt(a, b), gt(a, c)
        cnd = {"and": And(p, q), "or": Or(p, q), "not": Not(p)}[which]
        built = conditional(cnd, a, b)

        def val(comp, idx):
            x, y, z = (cx.den.real_primal(cx.v(o, (), idx)) for o in (a, b, c))
            P, Q = x.lt(y), z.lt(x)
            cond = {"and": tm.and_(P, Q), "or": tm.or_(P, Q), "not": tm.not_(P)}[which]
            return ring.ite(cond, cx.v(a, (), idx), cx.v(b, (), idx))

        return (built, (), {}, val, ops)
    if k in ("max", "min"):
        built = (max_value if k == "max" else min_value)(a, b)

        def val(comp, idx):
            x, y = cx.v(a, (), idx), cx.v(b, (), idx)
            xr, yr = cx.den.real_primal(x), cx.den.real_primal(y)
            return ring.ite(yr.lt(xr), x, y) if k == "max" else ring.ite(xr.lt(yr), x, y)

        return (built, (), {}, val, ops)
    if k == "sign":
        built = sign(a)

        def val(comp, idx):
            x = cx.den.real_primal(cx.v(a, (), idx))
            z = Frac(tm.const(0))
            return ring.ite(x.eq(z), cx.c(0), ring.ite(x.lt(z), cx.c(-1), cx.c(1)))

        return (built, (), {}, val, ops)
    if k in ("conj", "real", "imag"):
        built = {"conj": conj, "real": real, "imag": imag}[k](a)
        fn = {"conj": ring.conj, "real": ring.real, "imag": ring.imag}[k]
        return (built, a.ufl_shape, fi_of(a), lambda comp, idx: fn(cx.v(a, comp, idx)), ops)
    # ---- tensor algebra, by definition over operand values
    if k == "dot":
        sa, sb = a.ufl_shape, b.ufl_shape
        if sa == () or sb == ():
            return (dot(a, b),) + spec_mul(cx, a, b) + (ops,)

        def val(comp, idx):
            ca, cb = comp[: len(sa) - 1], comp[len(sa) - 1:]
            r = None
            for kk in range(sa[-1]):
                t = cx.v(a, ca + (kk,), idx) * cx.v(b, (kk,) + cb, idx)
                r = t if r is None else r + t
            return r

        return (dot(a, b), sa[:-1] + sb[1:], merged_fi(a, b)[0], val, ops)
    if k == "inner":
        def val(comp, idx):
            r = None
            for cc in itertools.product(*[range(s) for s in a.ufl_shape]):
                t = cx.v(a, cc, idx) * ring.conj(cx.v(b, cc, idx))
                r = t if r is None else r + t
            return r

        return (inner(a, b), (), merged_fi(a, b)[0], val, ops)
    if k == "outer":
        sa = a.ufl_shape

        def val(comp, idx):
            return ring.conj(cx.v(a, comp[: len(sa)], idx)) * cx.v(b, comp[len(sa):], idx)

        return (outer(a, b), sa + b.ufl_shape, merged_fi(a, b)[0], val, ops)
    if k == "outer3":
        sa, sb = a.ufl_shape, b.ufl_shape

        def val(comp, idx):
            # outer(a,b,c) = outer(outer(a,b), c): conj applies to the whole first factor
            x = ring.conj(cx.v(a, comp[: len(sa)], idx)) * cx.v(b, comp[len(sa): len(sa) + len(sb)], idx)
            return ring.conj(x) * cx.v(c, comp[len(sa) + len(sb):], idx)

        return (outer(a, b, c), sa + sb + c.ufl_shape, {}, val, ops)
    if k == "cross":
        def val(comp, idx):
            i = comp[0]
            j, kk = (i + 1) % 3, (i + 2) % 3
            return cx.v(a, (j,), idx) * cx.v(b, (kk,), idx) - cx.v(a, (kk,), idx) * cx.v(b, (j,), idx)

        return (cross(a, b), (3,), {}, val, ops)
    if k == "perp":
        return (perp(a), (2,), {},
                lambda comp, idx: -cx.v(a, (1,), idx) if comp[0] == 0 else cx.v(a, (0,), idx), ops)
    if k in ("det", "inv", "cofac", "dev", "skew", "sym", "tr", "transpose", "diag", "diag_vector"):
        fn = {"det": det, "inv": inv, "cofac": cofac, "dev": dev, "skew": skew, "sym": sym, "tr": tr,
              "transpose": transpose, "diag": diag, "diag_vector": diag_vector}[k]
        built = fn(a)
        sa = a.ufl_shape
        if sa == ():
            if k == "det":
                return (built, (), fi_of(a), lambda comp, idx: cx.v(a, (), idx), ops)
            if k == "inv":
                return (built, (), fi_of(a), lambda comp, idx: ring.inv(cx.v(a, (), idx)), ops)
        half = Fraction(1, 2)
        if k == "det":
            return (built, (), {}, lambda comp, idx: denote.det(matrix_of(cx, a, idx)), ops)
        if k == "inv":
            return (built, sa, {},
                    lambda comp, idx: denote.inverse(matrix_of(cx, a, idx))[comp[0]][comp[1]], ops)
        if k == "cofac":
            return (built, sa, {},
                    lambda comp, idx: denote.cofactor(matrix_of(cx, a, idx), comp[0], comp[1]), ops)
        if k == "dev":
            def val(comp, idx):
                v = cx.v(a, comp, idx)
                if comp[0] != comp[1]:
                    return v
                t = None
                for i in range(sa[0]):
                    x = cx.v(a, (i, i), idx)
                    t = x if t is None else t + x
                return v - t * cx.c(Fraction(1, sa[0]))

            return (built, sa, {}, val, ops)
        if k == "skew":
            return (built, sa, {},
                    lambda comp, idx: (cx.v(a, comp, idx) - cx.v(a, comp[::-1], idx)) * cx.c(half), ops)
        if k == "sym":
            return (built, sa, {},
                    lambda comp, idx: (cx.v(a, comp, idx) + cx.v(a, comp[::-1], idx)) * cx.c(half), ops)
        if k == "tr":
            def val(comp, idx):
                t = None
                for i in range(sa[0]):
                    x = cx.v(a, (i, i), idx)
                    t = x if t is None else t + x
                return t

            return (built, (), {}, val, ops)
        if k == "transpose":
            return (built, sa[::-1], {}, lambda comp, idx: cx.v(a, comp[::-1], idx), ops)
        if k == "diag":
            if len(sa) == 1:
                return (built, sa + sa, {},
                        lambda comp, idx: cx.v(a, (comp[0],), idx) if comp[0] == comp[1] else cx.c(0), ops)
            return (built, sa, {},
                    lambda comp, idx: cx.v(a, comp, idx) if comp[0] == comp[1] else cx.c(0), ops)
        if k == "diag_vector":
            return (built, (sa[0],), {}, lambda comp, idx: cx.v(a, (comp[0], comp[0]), idx), ops)
    if k == "elem_mult":
        return (elem_mult(a, b), a.ufl_shape, {},
                lambda comp, idx: cx.v(a, comp, idx) * cx.v(b, comp, idx), ops)
    if k == "elem_div":
        return (elem_div(a, b), a.ufl_shape, {},
                lambda comp, idx: cx.v(a, comp, idx) / cx.v(b, comp, idx), ops)
    if k == "restrict":
        which = spec["which"]
        built = {"plus": lambda: a("+") * b("-"), "jump": lambda: ufl.jump(a),
                 "avg": lambda: ufl.avg(a)}[which]()

        def val(comp, idx):
            P = lambda o: cx.den.ev(o, comp if o.ufl_shape else (), idx, (), "+")  # noqa: E731
            M = lambda o: cx.den.ev(o, comp if o.ufl_shape else (), idx, (), "-")  # noqa: E731
            if which == "plus":
                return P(a) * M(b)
            if which == "jump":
                return P(a) - M(a)
            return (P(a) + M(a)) * cx.c(Fraction(1, 2))

        return (built, a.ufl_shape, {}, val, ops)
    if k == "litfold":
        x, y = spec["x"], spec["y"]
        opn = spec["opn"]
        ax, ay = as_ufl(x), as_ufl(y)
        fx, fy = Fraction(x), Fraction(y)
        built, ref = {
            "add": (lambda: ax + ay, lambda: fx + fy), "sub": (lambda: ax - ay, lambda: fx - fy),
            "mul": (lambda: ax * ay, lambda: fx * fy), "div": (lambda: ax / ay, lambda: fx / fy),
            "pow": (lambda: ax ** ay, lambda: fx ** int(fy)), "neg": (lambda: -ax, lambda: -fx),
            "abs": (lambda: abs(ax), lambda: abs(fx)),
            "max": (lambda: max_value(ax, ay), lambda: max(fx, fy)),
        }[opn]
        r = ref()
        return (built(), (), {}, lambda comp, idx: cx.c(r), [])
    if k == "mathzero":
        fn = getattr(ufl, spec["fn"])
        z = {"exp": 1, "cos": 1, "cosh": 1}.get(spec["fn"], 0)
        built = as_ufl(fn(zero()) if spec.get("z", True) else fn(as_ufl(0.0)))
        return (built, (), {}, lambda comp, idx: cx.c(z), [])
    raise KeyError(k)


def run(spec):
    dom = mesh(spec.get("cell", "triangle"))
    env = Env(complex_mode=spec.get("complex", False))
    den = Denoter(env)
    cx = Ctx(den)
    name = spec["name"]
    try:
        built, shape, free, val, ops = build_case(spec, dom, cx)
    except KeyError as ke:
        return outcome(name, "error", detail=f"bad spec {ke}")
    # integrity of the operands after the construction: no operand may have become its own operand or changed otherwise
    for o in ops:
        try:
            bad_self = any(x is o for x in getattr(o, "ufl_operands", ()))
            repr(o)
        except RecursionError:
            bad_self = True
        if bad_self:
            return outcome(name, "violated", detail=f"the constructor modified an operand: a {type(o).__name__} became its own operand",
                           sample=f"{spec['case']}", witness={"structural": "operand mutated"})
    sample = f"{spec['case']}({', '.join(str(o)[:60] for o in ops)}) -> {str(built)[:200]}"
    # structure
    if tuple(built.ufl_shape) != tuple(shape):
        return outcome(name, "violated", detail=f"shape {built.ufl_shape}, requested {shape}", sample=sample,
                       witness={"structural": "shape"})
    bfi = dict(zip(built.ufl_free_indices, built.ufl_index_dimensions))
    if bfi != free:
        return outcome(name, "violated", detail=f"free indices {bfi}, requested {free}", sample=sample,
                       witness={"structural": "free indices"})
    pairs = []
    try:
        keys = sorted(free)
        for comp in itertools.product(*[range(s) for s in shape]):
            for vals in itertools.product(*[range(free[k]) for k in keys]):
                idx = dict(zip(keys, vals))
                pairs.append((val(comp, idx), den.ev(built, comp, idx, (), None)))
        diffs = solve.flatten_diffs(pairs)
    except DenotationError as ex:
        return outcome(name, "inconclusive", detail=f"denotation: {ex}", sample=sample)
    r = solve.prove_all_zero(diffs, timeout=spec.get("timeout", 30), label=name)
    ok, bad = solve.discharge_lemmas()
    st = r.status if not (r.status == "proved" and bad) else "inconclusive"
    res = [outcome(name, st, stage=r.stage, detail=r.detail or (f"values differ ({r.stage})" if st == "violated" else ""),
                   witness=r.witness, sample=sample, n_components=len(pairs))]
    if spec.get("twin") and pairs:
        two = env.const(2)
        pairs2 = [(a * two, b) for a, b in pairs]
        r2 = solve.prove_all_zero(solve.flatten_diffs(pairs2), timeout=30, label=name + "#twin")
        res.append(outcome(name + "#twin", r2.status, twin=True))
    return res


# --------------------------------------------------------------------------
# skeleton enumeration
# --------------------------------------------------------------------------


def specs(tier):
    S = []
    thorough = tier == "thorough"

    def add(**kw):
        kw["name"] = "/".join(f"{k}={v}" for k, v in kw.items() if k not in ("twin", "timeout")).replace(" ", "")
        S.append(kw)

    forms_t = ("coef", "zero", "sum", "list", "ctperm")
    forms_s = ("coef", "zero", "sum", "lit")
    tensor_shapes = [(2,), (3,), (2, 2), (2, 3)]
    modes = (False, True)
    for cxm in modes:
        # add/sub over forms
        for sh in [()] + tensor_shapes:
            fs = forms_s if sh == () else forms_t
            for fa in fs:
                for fb in fs:
                    if not thorough and fa != "coef" and fb != "coef" and (fa, fb) not in (("zero", "zero"), ("list", "ctperm"), ("lit", "lit")):
                        continue
                    add(case="add", shapes=(sh, sh), forms=(fa, fb), complex=cxm, twin=(fa == fb == "coef"))
                    if thorough or fa == "coef":
                        add(case="sub", shapes=(sh, sh), forms=(fa, fb), complex=cxm)
        # scalar*tensor, tensor*scalar, scalar*scalar
        for sh in [()] + tensor_shapes:
            fs = forms_s if sh == () else forms_t
            for fa in forms_s:
                for fb in fs:
                    if not thorough and fa not in ("coef", "zero") and fb not in ("coef", "zero"):
                        continue
                    add(case="mul", shapes=((), sh), forms=(fa, fb), complex=cxm)
                    add(case="mul", shapes=(sh, ()), forms=(fb, fa), complex=cxm)
        # matrix*vector, matrix*matrix
        for sa, sb in (((2, 2), (2,)), ((2, 3), (3,)), ((2, 2), (2, 2)), ((2, 3), (3, 2))):
            for fa in forms_t:
                for fb in forms_t:
                    if not thorough and fa != "coef" and fb != "coef" and fa != fb:
                        continue
                    add(case="mul", shapes=(sa, sb), forms=(fa, fb), complex=cxm, twin=(fa == fb == "coef"))
        # products of indexed operands with shared / repeated free indices (implicit summation)
        for pat, shs in ((("i", "i"), ((2,), (2,))), (("i", "j"), ((2,), (3,))), (("ij", "j"), ((2, 3), (3,))),
                         (("ij", "jk"), ((2, 3), (3, 2))), (("ij", "ij"), ((2, 2), (2, 2))),
                         (("ij", "ji"), ((2, 2), (2, 2))), (("i", ""), ((2,), ())), (("i", ""), ((2,), (3,))),
                         (("", "i"), ((2, 2), (2,))), (("ij", "k"), ((2, 2), (3,)))):
            for fa in ("coef", "zero", "list", "ctperm", "sum"):
                for fb in ("coef", "zero"):
                    if fb == "zero" and fa not in ("coef", "zero"):
                        continue
                    add(case="mul", shapes=shs, free=pat, forms=(fa, fb), complex=cxm)
        for pat, shs in ((("i", "i"), ((2,), (2,))), (("ij", "ij"), ((2, 2), (2, 2))), (("ij", "ji"), ((2, 2), (2, 2)))):
            for fa in ("coef", "zero", "ctperm"):
                add(case="add", shapes=shs, free=pat, forms=(fa, "coef"), complex=cxm)
        # division, power, neg, abs
        for sh in [()] + tensor_shapes:
            fs = forms_s if sh == () else forms_t
            for fa in fs:
                add(case="div", shapes=(sh, ()), forms=(fa, "coef"), complex=cxm)
                add(case="neg", shapes=(sh,), forms=(fa,), complex=cxm)
                if not cxm:
                    add(case="abs", shapes=(sh,), forms=(fa,), complex=cxm)
        add(case="div", shapes=((2,), ()), free=("i", ""), forms=("coef", "coef"), complex=cxm)
        add(case="div", shapes=((2,), ()), forms=("coef", "lit"), complex=cxm)
        for n in (0, 1, 2, 3, -1, -2, 0.5, 1.5):
            for fa in ("coef", "sum", "zero"):
                if fa == "zero" and (n <= 0):
                    continue
                if cxm and not isinstance(n, int):
                    continue
                add(case="pow", shapes=((),), forms=(fa,), n=n, complex=cxm)
        # indexing / slicing
        G = [((2, 3), [(0, 1), (1, ":"), (":", 2), ("i", 1), (0, "i"), ("i", "j"), ("j", "i"), ("...", 0), (1, "...")]),
             ((2, 2), [("i", "i"), (":", ":"), ("...",), ("i", ":"), (":", "i")]),
             ((3,), [(0,), (2,), ("i",), (":",)]),
             ((2, 2, 2), [("i", "i", 0), (0, "i", "i"), ("i", "j", "i"), (":", 1, ":"), ("...", 1), (0, "..."),
                          ("i", ":", "i"), (1, ":", 0), ("i", "j", "k"), ("k", "j", "i")])]
        for sh, pats in G:
            for items in pats:
                for fa in forms_t if len(sh) <= 2 else ("coef", "zero", "sum"):
                    add(case="getitem", shapes=(sh,), forms=(fa,), items=items, complex=cxm)
        # indexing an operand that already has free indices (repeats with them are summed)
        # as_tensor permutations
        for sh, pin in (((2, 3), "ij"), ((2, 3, 2), "ijk")):
            for pout in itertools.permutations(pin):
                for fa in ("coef", "zero", "sum") + (("list", "ctperm") if len(sh) == 2 else ()):
                    add(case="as_tensor", shapes=(sh,), forms=(fa,), pin=pin, pout="".join(pout), complex=cxm,
                        twin=(fa == "coef" and len(sh) == 2))
        # component tensors over indexed list tensors with free-index entries, indexed by fixed / free / slice items
        for sh, names in (((3,), "ik"), ((3, 2), "ijk")):
            for layout in itertools.permutations(names):
                dims = {"i": sh[0], "j": sh[1] if len(sh) > 1 else None, "k": 2}
                tshape = [dims[ch] for ch in layout]
                pats = [tuple(d - 1 for d in tshape), tuple(0 if n else d - 1 for n, d in enumerate(tshape)),
                        tuple("l" if n == 0 else d - 1 for n, d in enumerate(tshape)),
                        tuple("l" if n == len(tshape) - 1 else 0 for n, d in enumerate(tshape)),
                        tuple(":" if n == 0 else d - 1 for n, d in enumerate(tshape)),
                        tuple(":" if n == len(tshape) - 1 else d - 1 for n, d in enumerate(tshape))]
                for items in pats:
                    for fa in (("coef", "coef"), ("sum", "coef")):
                        add(case="getitem_ctlist", shapes=(sh, sh), forms=fa, layout="".join(layout), items=items, complex=cxm)
        # list tensors of component tensors / indexed (constructor shortcuts)
        for sh, pin in (((2, 2, 3), "ij"), ((3, 2, 2), "ij"), ((2, 3), "i")):
            for pout in itertools.permutations(pin):
                for fa in ("coef", "sum", "zero"):
                    add(case="list_of_ct", shapes=(sh,), forms=(fa,), pout="".join(pout), complex=cxm)
        for which, shs in (("last_fixed", ((2, 3), (3, 3))), ("last_fixed_rev", ((2, 3),)), ("first_fixed", ((2, 3), (2, 2))),
                           ("plain", ((3,),)), ("rows", ((2, 3),)), ("cols", ((2, 3),)), ("partial", ((3,),))):
            for sh in shs:
                for fa in ("coef", "sum", "list", "ctperm") if len(sh) <= 2 else ("coef",):
                    add(case="list_of_indexed", which=which, shapes=(sh,), forms=(fa,), complex=cxm)
        for shb, pats in (((2, 2), [("j",), ("i",), (1,)]), ((2, 2, 3), [("j", "k"), ("i", "j"), (1, "j"), ("j", ":"), ("j", 2)])):
            for items in pats:
                add(case="getitem_sum", shapes=((2,), shb), forms=("coef", "coef"), items=items, complex=cxm)
        # constructors that return an existing object of their own class
        for which, shs in (("abs_abs", ((), (2,))), ("abs_conj_abs", ((),)), ("det_det", ((2, 2),)), ("inner_inner_one", ((2,), (2,))),
                           ("outer_one_outer", ((2,), (3,))), ("conj_conj", ((), (2,))), ("neg_neg", ((), (2,))),
                           ("transpose_transpose", ((2, 3),))):
            if which in ("inner_inner_one", "outer_one_outer"):
                add(case="idempotent", which=which, shapes=shs, forms=("coef", "coef"), complex=cxm)
            else:
                for sh in shs:
                    for fa in ("coef", "sum"):
                        add(case="idempotent", which=which, shapes=(sh,), forms=(fa,), complex=cxm)
        # conditionals
        for rel in ("lt", "gt", "le", "ge", "eq", "ne"):
            for sh in ((), (2,)):
                add(case="cond", rel=rel, shapes=((), (), sh), forms=("coef", "coef", "coef"), complex=cxm)
            add(case="cond", rel=rel, shapes=((), (), (), ()), forms=("coef", "lit", "coef", "zero"), complex=cxm)
            add(case="cond", rel=rel, shapes=((), (), (), ()), forms=("lit", "lit", "coef", "coef"), complex=cxm)
        for which in ("and", "or", "not"):
            add(case="logic", which=which, shapes=((), (), ()), complex=cxm)
        for k in ("max", "min"):
            for fa, fb in (("coef", "coef"), ("coef", "lit"), ("lit", "lit"), ("coef", "zero")):
                add(case=k, shapes=((), ()), forms=(fa, fb), complex=cxm)
        for fa in ("coef", "lit", "zero"):
            if not cxm:  # sign() is documented for real x only
                add(case="sign", shapes=((),), forms=(fa,), complex=cxm)
        for k in ("conj", "real", "imag"):
            for sh in ((), (2,), (2, 2)):
                for fa in ("coef", "zero", "sum") + (("lit",) if sh == () else ()):
                    add(case=k, shapes=(sh,), forms=(fa,), complex=cxm)
        # tensor algebra constructors incl. scalar shortcuts and zeros
        dot_shapes = [((), ()), ((2,), (2,)), ((2, 2), (2,)), ((2,), (2, 3)), ((2, 3), (3, 2)),
                      ((2, 2, 2), (2,))]
        for sa, sb in dot_shapes:
            for fa, fb in (("coef", "coef"), ("zero", "coef"), ("coef", "zero"), ("sum", "coef")):
                add(case="dot", shapes=(sa, sb), forms=(fa, fb), complex=cxm)
        for sh in ((), (2,), (2, 2), (2, 3)):
            for fa, fb in (("coef", "coef"), ("zero", "coef"), ("coef", "zero"), ("sum", "sum")):
                add(case="inner", shapes=(sh, sh), forms=(fa, fb), complex=cxm, twin=(sh == (2,) and fa == fb == "coef"))
        for sa, sb in (((), ()), ((), (2,)), ((2,), ()), ((2,), (3,)), ((2, 2), (2,)), ((), (2, 2))):
            for fa, fb in (("coef", "coef"), ("zero", "coef"), ("coef", "zero"), ("sum", "coef")):
                add(case="outer", shapes=(sa, sb), forms=(fa, fb), complex=cxm)
        for shs in (((2,), (), (2,)), ((), (2,), (2,)), ((2,), (2,), ()), ((), (), (2,)), ((2,), (2,), (2,))):
            add(case="outer3", shapes=shs, complex=cxm)
        for fa, fb in (("coef", "coef"), ("zero", "coef"), ("list", "coef")):
            add(case="cross", shapes=((3,), (3,)), forms=(fa, fb), complex=cxm)
        for fa in ("coef", "zero", "list"):
            add(case="perp", shapes=((2,),), forms=(fa,), complex=cxm)
        for k in ("det", "inv", "cofac", "dev", "skew", "sym", "tr", "transpose", "diag", "diag_vector"):
            for sh in ((), (2, 2), (3, 3)) if k in ("det", "inv") else ((2, 2), (3, 3)):
                for fa in ("coef", "sum", "list") + (("zero",) if k not in ("inv", "cofac") else ()):
                    if sh == () and fa in ("list", "zero"):
                        continue
                    if sh == (3, 3) and fa == "list" and not thorough:
                        continue
                    add(case=k, shapes=(sh,), forms=(fa,), complex=cxm)
        for fa in ("coef", "zero", "sum", "list"):
            for sh in ((2, 3), (3, 2), (1, 3)):
                add(case="transpose", shapes=(sh,), forms=(fa,), complex=cxm)
        for k in ("dev", "skew", "sym", "tr", "det"):
            add(case=k, shapes=((2, 2),), forms=("zero",), complex=cxm) if k != "det" else None
        add(case="diag", shapes=((3,),), complex=cxm)
        for k in ("elem_mult", "elem_div"):
            for sh in ((2,), (2, 2)):
                add(case=k, shapes=(sh, sh), complex=cxm)
        for which in ("plus", "jump", "avg"):
            for sh in ((), (2,)):
                if which == "plus" and sh != ():
                    continue
                add(case="restrict", which=which, shapes=(sh, ()), complex=cxm)
    # literal folding (dyadic literals: exact in binary floating point)
    lits = (0, 1, -1, 2, 3, 0.5, -0.25, 4.0)
    for opn in ("add", "sub", "mul", "div", "max"):
        for x in lits:
            for y in lits:
                if opn == "div" and y == 0:
                    continue
                if not thorough and (abs(x) + abs(y)) % 1 == 0 and opn in ("sub", "max") and x not in (0, 1):
                    continue
                add(case="litfold", opn=opn, x=x, y=y)
    for x in lits:
        add(case="litfold", opn="neg", x=x, y=0)
        add(case="litfold", opn="abs", x=x, y=0)
        for y in (0, 1, 2, 3):
            if x == 0 and y == 0:
                continue
            add(case="litfold", opn="pow", x=x, y=y)
    for fn in ("sin", "cos", "exp", "tan", "sinh", "cosh", "tanh", "atan", "asin", "erf", "sqrt"):
        add(case="mathzero", fn=fn)
        add(case="mathzero", fn=fn, z=False)
    return S


def main():
    tier = harness.tier_from_argv()
    t0 = time.time()
    S = specs(tier)
    results = harness.run_pool("checks.C05", "run", S)
    try:
        from checks import C05u

        results += C05u.run_all(tier)
        e2 = C05u.DESCRIPTION
    except ImportError:
        e2 = "not built"
    rc = harness.finish(
        PROP, tier, "translation_validation", results, t0,
        functions=["ufl.exproperators._mult/_getitem/_add/_sub/_div/_pow/_neg/_abs/_restrict/_transpose",
                   "ufl.algebra.{Sum,Product,Division,Power,Abs,Conj,Real,Imag}.__new__",
                   "ufl.tensors.{ListTensor,ComponentTensor}.__new__, as_tensor/as_vector/as_matrix",
                   "ufl.indexed.Indexed.__new__ (+ _simplify_indexed hooks), ufl.indexsum.IndexSum.__new__",
                   "ufl.conditional.*, ufl.operators.{dot,inner,outer,cross,perp,det,inv,cofac,dev,skew,sym,tr,"
                   "transpose,diag,diag_vector,conj,real,imag,sign,max_value,min_value,elem_mult,elem_div,jump,avg}",
                   "ufl.tensoralgebra.*.__new__", "ufl.constantvalue (literal folding, Zero)",
                   "ufl.index_combination_utils.* (E2 part: " + e2 + ")"],
        bounds={"shapes": "(), (2,), (3,), (2,2), (2,3), (3,3), (2,2,2), (2,3,2)",
                "operand forms": "coefficient, Zero, sum, list tensor, permuting component tensor, literal",
                "index pool": "4 fixed Index objects i,j,k,l (reused across operands)",
                "literals": "dyadic rationals only (exact in binary floating point)",
                "outside": "rank > 3, dims > 3, irrational constant folding (e.g. 2**0.5), "
                           "operators covered by C02-C04/C06 (derivatives, lowering)"},
        assumptions=["reals as reals; float literals are dyadic so folding is exact",
                     "division where the divisor is non-zero; sqrt/abs as radicals y>=0, y^2=x",
                     "SPEC functions in checks/C05.py (the requested operation over operand values) and "
                     "vlib/denote.py are the trusted reference"],
        rule="one obligation per (operator case, operand shapes, operand forms, mode); structural part (shape, "
             "free indices and their dimensions) compared directly, value part decided by z3 for all operand "
             "values; distinct = distinct obligation names",
        trusted_base=["checks/C05.py SPEC functions", "vlib/denote.py", "vlib/ring.py", "vlib/terms.py", "z3"],
    )
    sys.exit(rc)


if __name__ == "__main__":
    main()
