"""C28 — base-form algebra has the semantics of the linear maps it denotes (E1 on a symbolic finite-dimensional model).

run:    the real constructors and operators: FormSum(...), +, -, scalar *, Action(...)/action(), Adjoint(...)/adjoint(),
        derivative() followed by expand_derivatives (map_integrands over base forms, Gateaux rules for Cofunction /
        Matrix / Coargument / ZeroBaseForm, the Leibniz rule of Action), and expand_derivatives as an identity pass
oracle: vlib.baseforms: every space gets a small number of basis functions with symbolic values at one quadrature
        point per measure; Matrix/Cofunction/Coefficient entries and scalar weights are free symbols.  For one
        operation applied to already built operands: spec = semantic operation (sum, scaling, contraction,
        transposition, d/d dof) on the assembled operands; z3 proves assemble(result) == spec entry by entry for all
        symbol values; the argument spaces the result reports must be those of the spec, and every coefficient the
        map depends on must be reported
bound:  two spaces (dims 2 and 3), operands up to depth 2 of the operation grammar, the listed atoms
"""

from __future__ import annotations

import itertools
import sys
import time

import ufl
import ufl.classes as C
from ufl import Action, Adjoint, Argument, Coargument, Coefficient, Cofunction, FormSum, Matrix, action, adjoint, derivative, dx, grad, inner
from ufl.algorithms import expand_derivatives
from ufl.form import ZeroBaseForm

from checks.common import mesh
from vlib import baseforms as bf
from vlib import elements as el
from vlib import harness, ring, solve
from vlib import terms as tm
from vlib.harness import outcome
from vlib.ring import DenotationError, Frac

PROP = "C28"


def world():
    dom = mesh("triangle", 2)
    cell = dom.ufl_cell()
    V = ufl.FunctionSpace(dom, el.P(cell, 1))
    U = ufl.FunctionSpace(dom, el.P(cell, 2))
    W = dict(dom=dom, V=V, U=U)
    f, f2, g = Coefficient(V, count=2801), Coefficient(V, count=2802), Coefficient(U, count=2803)
    v0, v1, u0, u1 = Argument(V, 0), Argument(V, 1), Argument(U, 0), Argument(U, 1)
    c = ufl.Constant(dom, count=2804)
    atoms = {
        # variational forms
        "aVU": f * u1 * v0 * dx + inner(grad(u1), grad(v0)) * dx, "aVV": (1 + f * f) * v1 * v0 * dx, "aUV": g * v1 * u0 * dx,
        "aVU2": u1 * v0 * dx, "LV": f * f * v0 * dx + f2 * v0 * dx, "LV2": f2 * v0.dx(0) * dx, "LU": g * f * u0 * dx,
        "J": f * f * g * dx,
        # assembled objects
        "MVU": Matrix(V, U, count=2810), "MVU2": Matrix(V, U, count=2811), "MUV": Matrix(U, V, count=2812),
        "MVV": Matrix(V, V, count=2813), "MVUd": Matrix(V, U.dual(), count=2814),
        "cV": Cofunction(V.dual(), count=2820), "cV2": Cofunction(V.dual(), count=2821), "cU": Cofunction(U.dual(), count=2822),
        "f": f, "f2": f2, "g": g,
        # zeros and identities
        "ZVU": ZeroBaseForm((v0, u1)), "ZUV": ZeroBaseForm((u0, v1)), "ZV": ZeroBaseForm((v0,)), "ZU": ZeroBaseForm((u0,)),
        "argV": Argument(V, 1), "argU": Argument(U, 1), "coargV": Coargument(V.dual(), 1), "coargU": Coargument(U.dual(), 1),
    }
    W.update(atoms=atoms, c=c, f=f, f2=f2, g=g)
    return W


WEIGHTS = {"1": lambda W: 1, "2": lambda W: 2, "-3": lambda W: -3, "c": lambda W: W["c"], "0.5": lambda W: 0.5}
DIMS = lambda W: [(W["V"], 2), (W["U"], 3)]  # noqa: E731


# ---- operation grammar: (name, arity, real operation, semantic operation)

def op_table(W, model):
    T = {}

    def sem_sum(ws):
        def s(*ts):
            acc = None
            for w, t in zip(ws, ts):
                x = bf.s_scale(model, model.weight(WEIGHTS[w](W)), t)
                acc = x if acc is None else bf.s_add(model, acc, x)
            return acc

        return s

    T["add"] = (2, lambda a, b: a + b, lambda a, b: bf.s_add(model, a, b))
    T["sub"] = (2, lambda a, b: a - b, lambda a, b: bf.s_add(model, a, bf.s_scale(model, Frac(tm.const(-1)), b)))
    T["neg"] = (1, lambda a: -a, lambda a: bf.s_scale(model, Frac(tm.const(-1)), a))
    for w in ("2", "-3", "c"):
        T[f"scale[{w}]"] = (1, (lambda w: lambda a: WEIGHTS[w](W) * a)(w), (lambda w: lambda a: bf.s_scale(model, model.weight(WEIGHTS[w](W)), a))(w))
    for ws in (("1", "-3"), ("2", "c"), ("c", "1")):
        T[f"FormSum[{','.join(ws)}]"] = (2, (lambda ws: lambda a, b: FormSum((a, WEIGHTS[ws[0]](W)), (b, WEIGHTS[ws[1]](W))))(ws), sem_sum(ws))
    for ws in (("2", "1", "-3"), ("1", "c", "0.5")):
        T[f"FormSum[{','.join(ws)}]"] = (3, (lambda ws: lambda a, b, d: FormSum(*[(x, WEIGHTS[w](W)) for x, w in zip((a, b, d), ws)]))(ws), sem_sum(ws))
    T["FormSum[-3]"] = (1, lambda a: FormSum((a, -3)), sem_sum(("-3",)))
    T["Action"] = (2, lambda a, b: Action(a, b), lambda a, b: bf.s_action(model, a, b))
    T["action"] = (2, lambda a, b: action(a, b), lambda a, b: bf.s_action(model, a, b))
    T["Adjoint"] = (1, lambda a: Adjoint(a), lambda a: bf.s_adjoint(model, a))
    T["adjoint"] = (1, lambda a: adjoint(a), lambda a: bf.s_adjoint(model, a))
    for cn in ("f", "g", "f2"):
        T[f"derivative[{cn}]"] = (1, (lambda cn: lambda a: expand_derivatives(derivative(a, W[cn])))(cn),
                                  (lambda cn: lambda a: bf.s_derivative(model, a, W[cn]))(cn))
    T["expand"] = (1, lambda a: expand_derivatives(a), lambda a: a)
    return T


def build(W, model, T, tree):
    """tree: atom name | (op, subtree...).  Returns the real object (operations applied by the real code)."""
    if isinstance(tree, str):
        return W["atoms"][tree]
    op, *subs = tree
    return T[op][1](*[build(W, model, T, s) for s in subs])


def tree_name(tree):
    if isinstance(tree, str):
        return tree
    return f"{tree[0]}({','.join(tree_name(s) for s in tree[1:])})"


def is_baseform_like(o):
    return isinstance(o, (C.BaseForm, C.Coefficient, C.Argument, C.Coargument, C.Sum))


def reported_slots(o):
    if isinstance(o, C.Coefficient):
        return [o.ufl_function_space().dual()]
    if isinstance(o, C.Argument) and not isinstance(o, C.BaseForm):
        return bf.argument_slots(o)
    if isinstance(o, C.Sum):
        return reported_slots(o.ufl_operands[0])
    return [a.ufl_function_space() for a in o.arguments()]


def reported_coefficients(o):
    if isinstance(o, C.Coefficient):
        return [o]
    if isinstance(o, C.Argument) and not isinstance(o, C.BaseForm):
        return []
    if isinstance(o, C.Sum):
        return reported_coefficients(o.ufl_operands[0]) + reported_coefficients(o.ufl_operands[1])
    return list(o.coefficients())


def run(spec):
    name = spec["name"]
    W = world()
    model = bf.Model(DIMS(W))
    T = op_table(W, model)
    tree = spec["tree"]
    op, *subs = tree
    sample = tree_name(tree)
    # operands: built by the real code (their own construction is the subject of other obligations)
    try:
        operands = [build(W, model, T, s) for s in subs]
    except Exception as ex:  # noqa: BLE001
        return outcome(name, "rejected", detail=f"operand construction raises {type(ex).__name__}", sample=sample)
    if op not in ("Action", "action") and any(isinstance(o, C.Expr) and not isinstance(o, C.BaseForm) for o in operands):
        return outcome(name, "rejected", detail="operation undefined in the model: expression algebra, not base-form algebra", sample=sample)
    if op == "action" and isinstance(operands[1], C.Argument) and not isinstance(operands[1], C.BaseForm):
        # action(form, Argument) substitutes the numbered Argument for the trial function: the result depends on argument
        # numbers, which the model (Argument = identity map) does not represent
        return outcome(name, "rejected", detail="operation undefined in the model: action() on a numbered Argument", sample=sample)
    try:
        tensors = [model.assemble(o) for o in operands]
        want = T[op][2](*tensors)
    except bf.ModelError as ex:
        return outcome(name, "rejected", detail=f"operation undefined in the model: {ex}", sample=sample)
    except DenotationError as ex:
        return outcome(name, "inconclusive", detail=f"denotation: {ex}", sample=sample)
    # the real operation
    reprs = [repr(o) for o in operands]
    try:
        res = T[op][1](*operands)
    except (TypeError, ValueError, NotImplementedError, AttributeError, AssertionError, IndexError) as ex:
        # a refusal is not a wrong map; recorded (the model accepts more than UFL supports)
        return outcome(name, "rejected", detail=f"UFL refuses: {type(ex).__name__}: {str(ex)[:100]}", sample=sample)
    try:
        sample += f"  ==>  {type(res).__name__}: {str(res)[:160]}"
    except RecursionError:
        return outcome(name, "violated", detail="the result is a self-referential object (str() recurses forever)", sample=sample,
                       witness={"structural": "self-reference"})
    # operands must not be modified by the operation
    for o, r0 in zip(operands, reprs):
        try:
            same = repr(o) == r0
        except RecursionError:
            same = False
        if not same:
            return outcome(name, "violated", detail="an operand was modified by the operation", sample=sample,
                           witness={"structural": "operand mutated"})
    undetermined = (isinstance(res, C.Form) and res.empty()) or isinstance(res, C.Zero)
    if undetermined:
        # UFL's argument-less zeros (empty Form, ufl.Zero): the arguments are undetermined by design; the specified
        # map must be identically zero
        r = solve.prove_all_zero(solve.flatten_diffs([(want.data[i], Frac(tm.const(0))) for i in sorted(want.data)]), (), 60, (), label=name)
        if r.status == "violated":
            return outcome(name, "violated", detail="the result is an (argument-less) zero but the specified map is not zero",
                           witness=r.witness, sample=sample)
        return outcome(name, "proved" if r.status == "proved" else "inconclusive", detail=r.detail, sample=sample, stage=r.stage)
    if not is_baseform_like(res):
        return outcome(name, "violated", detail=f"result is not a base form: {type(res).__name__}", sample=sample,
                       witness={"structural": repr(res)[:200]})
    try:
        got = model.assemble(res)
    except bf.ModelError as ex:
        return outcome(name, "inconclusive", detail=f"cannot assemble the result: {ex}", sample=sample)
    except DenotationError as ex:
        return outcome(name, "inconclusive", detail=f"denotation of the result: {ex}", sample=sample)
    # (1) reported argument spaces
    rs = reported_slots(res)
    if len(rs) != len(want.slots) or any(a != b for a, b in zip(rs, want.slots)):
        return outcome(name, "violated", detail=f"reported argument spaces {[model.sname(s) + ('*' if bf.is_dual(s) else '') for s in rs]} "
                       f"differ from the contraction rule {[model.sname(s) + ('*' if bf.is_dual(s) else '') for s in want.slots]}",
                       sample=sample, witness={"structural": "arguments"})
    if not bf.same_slots(got, want):
        return outcome(name, "violated", detail="assembled shape differs from the specification", sample=sample,
                       witness={"structural": "shape"})
    # (2) the map
    pairs = [(want.data[i], got.data[i]) for i in sorted(want.data)]
    r = solve.prove_all_zero(solve.flatten_diffs(pairs), (), 60, (), label=name)
    if r.status == "violated":
        return outcome(name, "violated", detail="assembled result differs from the specified map", witness=r.witness, sample=sample,
                       stage=r.stage)
    if r.status != "proved":
        return outcome(name, "inconclusive", detail=r.detail, sample=sample)
    # (3) coefficients the map depends on are reported
    rc = reported_coefficients(res)
    for f in (W["f"], W["f2"], W["g"]):
        if bf.depends_on(model, want, f) and f not in rc:
            return outcome(name, "violated", detail=f"the map depends on coefficient {f} which is not reported by coefficients()",
                           sample=sample, witness={"structural": "coefficients"})
    out = [outcome(name, "proved", stage=r.stage, sample=sample, entries=len(pairs))]
    if spec.get("twin"):
        ring.reset()
        tensors = [model.assemble(o) for o in operands]
        want = T[op][2](*tensors)
        got = model.assemble(res)
        k0 = sorted(want.data)[0]
        pairs = [(want.data[i] + (Frac(tm.var("twin_eps")) if i == k0 else Frac(tm.const(0))), got.data[i]) for i in sorted(want.data)]
        rt = solve.prove_all_zero(solve.flatten_diffs(pairs), (), 60, (), label=name + "#twin")
        out.append(outcome(name + "#twin", rt.status, twin=True, detail="perturbed specification must be refuted"))
    return out


def specs(tier):
    W = world()
    model = bf.Model(DIMS(W))
    T = op_table(W, model)
    atoms = list(W["atoms"])
    S = []
    seen = set()

    def add(tree, twin=False):
        n = tree_name(tree)
        if n not in seen:
            seen.add(n)
            S.append(dict(name=n, tree=tree, twin=twin))

    # level 1: every operation on atoms (typing is decided by the model at run time)
    for op, (ar, _, _) in T.items():
        for combo in itertools.product(atoms, repeat=ar):
            if ar == 3 and not (tier == "thorough" or len(set(combo)) == 3 and combo[0] < combo[2]):
                continue
            add((op,) + combo, twin=(op in ("add", "Action", "Adjoint") and combo[0] in ("MVU", "aVU")))
    # level 2: operations on level-1 results (a fixed family of composite operands)
    comps = [
        ("add", "MVU", "aVU"), ("sub", "cV", "LV"), ("scale[c]", "MVU"), ("scale[-3]", "LV"), ("Action", "MVU", "g"),
        ("Action", "MVV", "f"), ("Adjoint", "MVU"), ("adjoint", "aVU"), ("FormSum[2,c]", "MVU", "MVU2"),
        ("FormSum[1,-3]", "LV", "LV2"), ("derivative[f]", "cV"), ("derivative[f]", "LV"), ("derivative[g]", "MVU"),
        ("Action", "MUV", "cV"), ("add", "LV", "cV"), ("FormSum[2,1,-3]", "LV", "cV", "LV2"), ("Action", "aVU", "g"),
        ("Action", "cV", "f"), ("Action", "LV", "f2"), ("add", "f", "f2"), ("Adjoint", "ZVU"), ("Action", "MVU", "ZU"),
        ("neg", "cU"), ("sub", "MVU", "MVU2"), ("Adjoint", "coargV"), ("derivative[f]", "aVV"),
    ]
    unary = [k for k, v in T.items() if v[0] == 1]
    binary = [k for k, v in T.items() if v[0] == 2]
    for cp in comps:
        for op in unary:
            add((op, cp))
        for op in binary:
            for a in atoms:
                add((op, cp, a))
                add((op, a, cp))
            if tier == "thorough":
                for cp2 in comps:
                    add((op, cp, cp2))
    # level 3: derivatives / expansion of weighted sums whose components vanish selectively (weights must stay aligned
    # with the surviving components)
    oneV = [("Action", "MVV", "f"), ("Action", "MVU", "g"), "cV", "cV2", ("Action", "MVV", "f2"), "LV"]
    for top in ("derivative[f]", "derivative[g]", "expand"):
        for a_, b_ in itertools.permutations(oneV, 2):
            for fs in ("FormSum[2,c]", "FormSum[1,-3]"):
                add((top, (fs, a_, b_)))
        for a_, b_, c_ in itertools.permutations(oneV[:4], 3):
            add((top, ("FormSum[2,1,-3]", a_, b_, c_)))
    # the same with scalar-valued (0-form) actions, the only Actions UFL differentiates (left operand a 1-form)
    zero_forms = [("Action", "cV", "f"), ("Action", "cV2", "f2"), ("Action", "cU", "g"), ("Action", "cV2", "f"), "J"]
    for top in ("derivative[f]", "derivative[g]", "derivative[f2]", "expand"):
        for a_, b_ in itertools.permutations(zero_forms, 2):
            for fs in ("FormSum[2,c]", "FormSum[1,-3]"):
                add((top, (fs, a_, b_)))
        for a_, b_, c_ in itertools.permutations(zero_forms[:4], 3):
            add((top, ("FormSum[2,1,-3]", a_, b_, c_)))
    if tier != "thorough":
        for op in ("add", "Action", "action", "FormSum[1,-3]", "FormSum[2,c]"):
            for cp, cp2 in itertools.product(comps[:14], repeat=2):
                add((op, cp, cp2))
    return S


def main():
    tier = harness.tier_from_argv()
    t0 = time.time()
    results = harness.run_pool("checks.C28", "run", specs(tier))
    # combinations the specification itself does not define (different argument spaces in a sum, no dual pairing in a
    # contraction, ...) are not obligations
    undefined = [r for r in results if r["status"] == "rejected" and str(r.get("detail", "")).startswith(("operation undefined", "operand construction"))]
    results = [r for r in results if r not in undefined]
    refused = {}
    for r in results:
        if r["status"] == "rejected":
            k = str(r.get("detail", ""))[:60]
            refused[k] = refused.get(k, 0) + 1
    rc = harness.finish(
        PROP, tier, "translation_validation", results, t0,
        functions=["ufl.form.{BaseForm.__add__/__sub__/__neg__/__rmul__, FormSum.__new__/__init__/_sum_variational_components/"
                   "_analyze_form_arguments, ZeroBaseForm}", "ufl.action.{Action.__new__, _get_action_form_arguments, _check_function_spaces}",
                   "ufl.adjoint.{Adjoint.__new__, _analyze_form_arguments}", "ufl.formoperators.{action, adjoint, derivative}",
                   "ufl.algorithms.map_integrands.map_integrands", "ufl.algorithms.apply_derivatives (base form rules)",
                   "ufl.algorithms.formtransformations.{compute_form_action, compute_form_adjoint}"],
        bounds={"spaces": "V (2 basis functions), U (3 basis functions) on one triangle mesh", "operands": "atoms and depth-1 "
                "composites; one operation on top (thorough: all pairs of composites)", "weights": "1, 2, -3, 0.5, a symbolic Constant",
                "outside": "BaseFormOperators (Interpolate, ExternalOperator), mixed spaces, complex mode (conjugation in adjoint), "
                           "ufl.Zero operands (their arguments are undetermined by design), deeper nestings"},
        assumptions=["a Form assembles to its integrand with Arguments replaced by basis functions and Coefficients by their "
                     "expansion (one quadrature point per measure, symbolic basis values)",
                     "operands are trusted to report their own arguments (each operand is itself the result of a checked obligation or an atom)",
                     "a refusal (TypeError/ValueError/NotImplementedError) is recorded as rejected, not as a wrong map"],
        rule="per operation instance: z3 proves assemble(real result) == semantic operation on assembled operands for all symbol "
             "values; reported argument spaces and coefficient dependence are compared with the specification",
        trusted_base=["vlib/baseforms.py", "vlib/denote.py", "z3"],
        extra={"combinations_undefined_in_the_model": len(undefined), "refusals_by_kind": refused},
    )
    sys.exit(rc)


if __name__ == "__main__":
    main()
