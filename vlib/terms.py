"""Hash-consed real-arithmetic term DAG, SMT-LIB2 emission, exact evaluation,
and a sparse-polynomial normaliser (used only to *identify* denominator atoms
and radicands and to rewrite even radical powers; verdicts come from the
solver).

Sorts: Real and Bool.  Everything numeric is an exact Fraction.
"""

from __future__ import annotations

import math
from fractions import Fraction

# --------------------------------------------------------------------------
# term DAG
# --------------------------------------------------------------------------

_TABLE: dict = {}
_COUNTER = [0]


class T:
    __slots__ = ("op", "args", "id", "sort", "_poly")

    def __init__(self, op, args, sort):
        self.op = op
        self.args = args
        self.sort = sort
        self.id = _COUNTER[0]
        _COUNTER[0] += 1
        self._poly = False  # False = not computed; None = not polynomial/too big

    def __repr__(self):
        return f"T{self.id}:{self.op}"

    # arithmetic sugar
    def __add__(self, o):
        return add(self, lift(o))

    __radd__ = __add__

    def __mul__(self, o):
        return mul(self, lift(o))

    __rmul__ = __mul__

    def __neg__(self):
        return mul(const(-1), self)

    def __sub__(self, o):
        return add(self, -lift(o))

    def __rsub__(self, o):
        return add(lift(o), -self)


def reset():
    """Forget all terms (per-obligation isolation is not needed for soundness;
    this only bounds memory)."""
    _TABLE.clear()
    _POLYVARS.clear()


def _mk(op, args, sort="Real"):
    key = (op, args)
    t = _TABLE.get(key)
    if t is None:
        t = T(op, args, sort)
        _TABLE[key] = t
    return t


def const(v) -> T:
    return _mk("c", (Fraction(v),))


ZERO = None
ONE = None


def zero():
    return const(0)


def one():
    return const(1)


def var(name: str) -> T:
    return _mk("v", (name,))


def boolvar(name: str) -> T:
    return _mk("v", (name,), "Bool")


def lift(x) -> T:
    if isinstance(x, T):
        return x
    return const(x)


def is_const(t: T):
    return t.op == "c"


def cval(t: T) -> Fraction:
    return t.args[0]


def add(*xs) -> T:
    c = Fraction(0)
    rest = []
    for x in xs:
        x = lift(x)
        if x.op == "c":
            c += x.args[0]
        elif x.op == "add":
            for y in x.args:
                if y.op == "c":
                    c += y.args[0]
                else:
                    rest.append(y)
        else:
            rest.append(x)
    if not rest:
        return const(c)
    if c != 0:
        rest.append(const(c))
    if len(rest) == 1:
        return rest[0]
    return _mk("add", tuple(rest))


def mul(*xs) -> T:
    c = Fraction(1)
    rest = []
    for x in xs:
        x = lift(x)
        if x.op == "c":
            c *= x.args[0]
        elif x.op == "mul":
            for y in x.args:
                if y.op == "c":
                    c *= y.args[0]
                else:
                    rest.append(y)
        else:
            rest.append(x)
    if c == 0:
        return const(0)
    if not rest:
        return const(c)
    if c != 1:
        rest.insert(0, const(c))
    if len(rest) == 1:
        return rest[0]
    return _mk("mul", tuple(rest))


def sub(a, b) -> T:
    return add(a, mul(const(-1), b))


def powi(a: T, k: int) -> T:
    assert k >= 0
    r = const(1)
    for _ in range(k):
        r = mul(r, a)
    return r


def uf(name: str, *args) -> T:
    return _mk("uf", (name,) + tuple(lift(a) for a in args))


def ite(c: T, a, b) -> T:
    a, b = lift(a), lift(b)
    if c.op == "true":
        return a
    if c.op == "false":
        return b
    if a is b:
        return a
    return _mk("ite", (c, a, b))


def true():
    return _mk("true", (), "Bool")


def false():
    return _mk("false", (), "Bool")


def _cmp(op, a, b) -> T:
    a, b = lift(a), lift(b)
    if a.op == "c" and b.op == "c":
        x, y = a.args[0], b.args[0]
        r = {"lt": x < y, "le": x <= y, "eq": x == y}[op]
        return true() if r else false()
    if op == "eq" and a is b:
        return true()
    return _mk(op, (a, b), "Bool")


def lt(a, b):
    return _cmp("lt", a, b)


def le(a, b):
    return _cmp("le", a, b)


def eq(a, b):
    return _cmp("eq", a, b)


def gt(a, b):
    return lt(b, a)


def ge(a, b):
    return le(b, a)


def not_(a: T) -> T:
    if a.op == "true":
        return false()
    if a.op == "false":
        return true()
    if a.op == "not":
        return a.args[0]
    return _mk("not", (a,), "Bool")


def ne(a, b):
    return not_(eq(a, b))


def and_(*xs) -> T:
    rest = []
    for x in xs:
        if x.op == "false":
            return false()
        if x.op == "true":
            continue
        rest.append(x)
    if not rest:
        return true()
    if len(rest) == 1:
        return rest[0]
    return _mk("and", tuple(rest), "Bool")


def or_(*xs) -> T:
    rest = []
    for x in xs:
        if x.op == "true":
            return true()
        if x.op == "false":
            continue
        rest.append(x)
    if not rest:
        return false()
    if len(rest) == 1:
        return rest[0]
    return _mk("or", tuple(rest), "Bool")


# --------------------------------------------------------------------------
# traversal helpers
# --------------------------------------------------------------------------


def postorder(roots):
    seen = set()
    out = []
    stack = [(r, False) for r in roots]
    while stack:
        t, done = stack.pop()
        if done:
            out.append(t)
            continue
        if t.id in seen:
            continue
        seen.add(t.id)
        stack.append((t, True))
        for a in t.args:
            if isinstance(a, T) and a.id not in seen:
                stack.append((a, False))
    return out


def variables(roots):
    return sorted(
        {(t.args[0], t.sort) for t in postorder(roots) if t.op == "v"}, key=lambda p: p[0]
    )


def ufs(roots):
    return [t for t in postorder(roots) if t.op == "uf"]


def size(roots):
    return len(postorder(roots))


# --------------------------------------------------------------------------
# SMT-LIB2 emission
# --------------------------------------------------------------------------


def _smt_const(q: Fraction) -> str:
    def i(n):
        return f"{n}.0" if n >= 0 else f"(- {-n}.0)"

    if q.denominator == 1:
        return i(q.numerator)
    return f"(/ {i(q.numerator)} {q.denominator}.0)"


def _sym(name: str) -> str:
    return "|" + name.replace("|", "_") + "|"


def to_smt2(assertions, logic=None, comments=()) -> str:
    """Emit a script asserting every Bool term in `assertions`."""
    nodes = postorder(assertions)
    lines = [f"; {c}" for c in comments]
    if logic:
        lines.append(f"(set-logic {logic})")
    # declarations
    ufsigs = {}
    for t in nodes:
        if t.op == "v":
            lines.append(f"(declare-fun {_sym(t.args[0])} () {t.sort})")
        elif t.op == "uf":
            ufsigs[t.args[0]] = len(t.args) - 1
    for name, n in sorted(ufsigs.items()):
        lines.append(f"(declare-fun {_sym(name)} ({' '.join(['Real'] * n)}) Real)")
    # Count uses so that single-use nodes are inlined and shared ones named.
    uses = {}
    for t in nodes:
        for a in t.args:
            if isinstance(a, T):
                uses[a.id] = uses.get(a.id, 0) + 1
    name = {}

    def ref(t):
        return name[t.id]

    for t in nodes:
        op = t.op
        if op == "c":
            s = _smt_const(t.args[0])
        elif op == "v":
            s = _sym(t.args[0])
        elif op == "true":
            s = "true"
        elif op == "false":
            s = "false"
        elif op == "add":
            s = "(+ " + " ".join(ref(a) for a in t.args) + ")"
        elif op == "mul":
            s = "(* " + " ".join(ref(a) for a in t.args) + ")"
        elif op == "uf":
            s = "(" + _sym(t.args[0]) + " " + " ".join(ref(a) for a in t.args[1:]) + ")"
        elif op == "ite":
            s = "(ite " + " ".join(ref(a) for a in t.args) + ")"
        elif op in ("lt", "le", "eq"):
            sym = {"lt": "<", "le": "<=", "eq": "="}[op]
            s = f"({sym} {ref(t.args[0])} {ref(t.args[1])})"
        elif op == "not":
            s = f"(not {ref(t.args[0])})"
        elif op in ("and", "or"):
            s = f"({op} " + " ".join(ref(a) for a in t.args) + ")"
        else:
            raise ValueError(op)
        if op in ("c", "v", "true", "false") or uses.get(t.id, 0) <= 1:
            name[t.id] = s
        else:
            n = f"n{t.id}"
            lines.append(f"(define-fun {n} () {t.sort} {s})")
            name[t.id] = n
    for a in assertions:
        lines.append(f"(assert {ref(a)})")
    lines.append("(check-sat)")
    return "\n".join(lines) + "\n"


# --------------------------------------------------------------------------
# exact / float evaluation
# --------------------------------------------------------------------------

UF_IMPL = {}


def evaluate(roots, env: dict, uf_impl=None, radicals=None):
    """Evaluate terms bottom-up.  env maps variable names to Fraction/float/bool.
    UFs are evaluated with uf_impl[name](*float args) (result float)."""
    uf_impl = uf_impl or UF_IMPL
    val = {}
    for t in postorder(roots):
        op = t.op
        if op == "c":
            v = t.args[0]
        elif op == "v":
            v = env[t.args[0]]
        elif op == "true":
            v = True
        elif op == "false":
            v = False
        elif op == "add":
            v = 0
            for a in t.args:
                v = v + val[a.id]
        elif op == "mul":
            v = 1
            for a in t.args:
                v = v * val[a.id]
        elif op == "uf":
            f = uf_impl[t.args[0]]
            v = f(*[float(val[a.id]) for a in t.args[1:]])
        elif op == "ite":
            v = val[t.args[1].id] if val[t.args[0].id] else val[t.args[2].id]
        elif op == "lt":
            v = val[t.args[0].id] < val[t.args[1].id]
        elif op == "le":
            v = val[t.args[0].id] <= val[t.args[1].id]
        elif op == "eq":
            v = val[t.args[0].id] == val[t.args[1].id]
        elif op == "not":
            v = not val[t.args[0].id]
        elif op == "and":
            v = all(val[a.id] for a in t.args)
        elif op == "or":
            v = any(val[a.id] for a in t.args)
        else:
            raise ValueError(op)
        val[t.id] = v
    return [val[r.id] for r in roots]


# --------------------------------------------------------------------------
# sparse polynomials over Q; opaque nodes (uf, ite, vars) are polynomial variables
# --------------------------------------------------------------------------

_POLYVARS: dict = {}  # T.id of opaque node -> T
POLY_LIMIT = 100000


class Poly:
    """dict monomial -> Fraction; monomial = tuple of (varid, exp) sorted by varid."""

    __slots__ = ("d",)

    def __init__(self, d=None):
        self.d = d or {}

    @staticmethod
    def const(c):
        c = Fraction(c)
        return Poly({(): c} if c != 0 else {})

    @staticmethod
    def variable(vid):
        return Poly({((vid, 1),): Fraction(1)})

    def is_zero(self):
        return not self.d

    def is_const(self):
        return all(m == () for m in self.d)

    def cvalue(self):
        return self.d.get((), Fraction(0))

    def __add__(self, o):
        d = dict(self.d)
        for m, c in o.d.items():
            v = d.get(m, 0) + c
            if v == 0:
                d.pop(m, None)
            else:
                d[m] = v
        return Poly(d)

    def scale(self, c):
        if c == 0:
            return Poly()
        return Poly({m: v * c for m, v in self.d.items()})

    def __neg__(self):
        return self.scale(-1)

    def __sub__(self, o):
        return self + (-o)

    def __mul__(self, o):
        if len(self.d) * len(o.d) > 4 * POLY_LIMIT:
            raise PolyTooBig()
        d = {}
        for m1, c1 in self.d.items():
            for m2, c2 in o.d.items():
                m = _mono_mul(m1, m2)
                v = d.get(m, 0) + c1 * c2
                if v == 0:
                    d.pop(m, None)
                else:
                    d[m] = v
        if len(d) > POLY_LIMIT:
            raise PolyTooBig()
        return Poly(d)

    def __pow__(self, k):
        r = Poly.const(1)
        for _ in range(k):
            r = r * self
        return r

    def key(self):
        return tuple(sorted(self.d.items()))

    def leading(self):
        m = max(self.d)
        return m, self.d[m]

    def monic(self):
        """Return (c, key of p/c) with c the leading coefficient."""
        _, c = self.leading()
        return c, self.scale(1 / c).key()

    def vars(self):
        return {v for m in self.d for v, _ in m}

    def degree_in(self, vid):
        return max((e for m in self.d for v, e in m if v == vid), default=0)

    def __len__(self):
        return len(self.d)


class PolyTooBig(Exception):
    pass


def _mono_mul(m1, m2):
    if not m1:
        return m2
    if not m2:
        return m1
    d = dict(m1)
    for v, e in m2:
        d[v] = d.get(v, 0) + e
    return tuple(sorted(d.items()))


def to_poly(t: T):
    """Polynomial normal form of a Real term (None if too big).  Non-arithmetic
    nodes are opaque variables identified by their hash-consed term id."""
    if t._poly is not False:
        return t._poly
    try:
        for n in postorder([t]):
            if n._poly is not False:
                if n._poly is None:
                    raise PolyTooBig()
                continue
            op = n.op
            if n.sort != "Real":
                n._poly = None
                continue
            if op == "c":
                p = Poly.const(n.args[0])
            elif op == "add":
                p = Poly()
                for a in n.args:
                    p = p + a._poly
                if len(p) > POLY_LIMIT:
                    raise PolyTooBig()
            elif op == "mul":
                p = Poly.const(1)
                for a in n.args:
                    p = p * a._poly
            else:  # v, uf, ite
                _POLYVARS[n.id] = n
                p = Poly.variable(n.id)
            n._poly = p
    except PolyTooBig:
        t._poly = None
        return None
    return t._poly


def poly_to_term(p: Poly) -> T:
    terms = []
    for m, c in sorted(p.d.items()):
        fs = [const(c)]
        for v, e in m:
            fs.extend([_POLYVARS[v]] * e)
        terms.append(mul(*fs))
    return add(*terms) if terms else const(0)


def isqrt_fraction(q: Fraction):
    """Exact sqrt of a non-negative rational if it is a perfect square, else None."""
    if q < 0:
        return None
    n, d = q.numerator, q.denominator
    rn, rd = math.isqrt(n), math.isqrt(d)
    if rn * rn == n and rd * rd == d:
        return Fraction(rn, rd)
    return None
