"""Independent denotation of UFL expressions.

`Denoter.ev(e, comp, idx, ctx)` maps one scalar component of a UFL expression
to a ring value (vlib.ring).  It is written against the mathematical
definition of every node type and reads only the node's type, operands, shape,
index objects and terminal payloads; it uses no UFL algorithm.

ctx is a tuple of perturbations; the result lives in the dual-number tower of
that depth (ctx[-1] is the outermost epsilon):
  ("x", i)            physical coordinate direction i (spatial derivative)
  ("X", j)            reference coordinate direction j
  ("gat", key)        Gateaux perturbation; env.gateaux[key] maps terminals to
                      direction expressions
  ("var", label, c)   unit perturbation of component c of the variable `label`
  ("coef", count, c)  unit perturbation of component c of Coefficient `count`
"""

from __future__ import annotations

import itertools
from fractions import Fraction

import ufl
import ufl.classes as C

from . import ring
from . import terms as tm
from .ring import Cx, DenotationError, Dual, Frac


def perm_parity(p):
    p = list(p)
    if len(set(p)) != len(p):
        return 0
    s = 1
    for i in range(len(p)):
        while p[i] != i:
            j = p[i]
            p[i], p[j] = p[j], p[i]
            s = -s
    return s


def float_literal(v: float) -> Fraction:
    """Reals as reals: a float literal denotes the simplest rational that
    reproduces it (so 1.0/3 denotes 1/3), else its exact binary value."""
    f = Fraction(v)
    g = f.limit_denominator(10**6)
    if float(g) == v:
        return g
    return f


class Env:
    """Base environment: free symbols for everything (physical frame)."""

    complex_mode = False

    def __init__(self, complex_mode=False):
        self.complex_mode = complex_mode
        self.gateaux = {}  # key -> {terminal: direction expr}
        self.gateaux_cd = {}  # key -> {terminal g: (w, dg/dw expr)} user relations
        self.den = None
        self.real_terminals = False  # all field data real-valued (C23)
        self.arg_override = {}  # terminal -> callable(comp, derivs, side) -> base value

    # -- symbol helpers
    def base(self, name):
        if self.complex_mode:
            if self.real_terminals:
                return Cx(Frac(tm.var(name)), Frac(tm.const(0)))
            return Cx(Frac(tm.var(name + "!re")), Frac(tm.var(name + "!im")))
        return Frac(tm.var(name))

    def real_base(self, name):
        if self.complex_mode:
            return Cx(Frac(tm.var(name)), Frac(tm.const(0)))
        return Frac(tm.var(name))

    def const(self, v):
        if isinstance(v, complex):
            if not self.complex_mode:
                if v.imag != 0:
                    raise DenotationError("complex literal in real mode")
                v = v.real
            else:
                return Cx(Frac(tm.const(float_literal(v.real))), Frac(tm.const(float_literal(v.imag))))
        q = float_literal(v) if isinstance(v, float) else Fraction(v)
        return Cx(Frac(tm.const(q))) if self.complex_mode else Frac(tm.const(q))

    def zero(self):
        return self.const(0)

    def tname(self, t):
        if isinstance(t, C.Coefficient):
            return f"w{t.count()}"
        if isinstance(t, C.Argument):
            p = t.part()
            return f"v{t.number()}" + (f"p{p}" if p is not None else "")
        if isinstance(t, C.Constant):
            return f"c{t.count()}"
        return type(t).__name__

    @staticmethod
    def dname(derivs):
        return "".join(f"_d{k}{i}" for k, i in sorted(derivs))

    # -- terminals: value of D_derivs t[comp] in the base ring
    def symbol(self, t, comp, derivs, side):
        """derivs: tuple of ("x"|"X", i).  Base-ring value."""
        s = f"@{side}" if side else ""
        ov = self.arg_override.get(t)
        if ov is not None:
            return ov(comp, derivs, side)
        if isinstance(t, (C.Coefficient, C.Argument)):
            if any(k != "x" for k, _ in derivs):
                raise DenotationError("reference derivative of a physical field")
            # a field in a symmetric tensor space has equal values in symmetric components (by definition of the
            # space: both components are the same degree of freedom): one symbol for the whole class
            pb = getattr(t.ufl_element(), "pullback", None)
            smap = getattr(pb, "_symmetry", None)
            if smap and tuple(comp) in smap:
                comp = min(c_ for c_, k_ in smap.items() if k_ == smap[tuple(comp)])
            return self.base(f"{self.tname(t)}{list(comp)}{self.dname(derivs)}{s}".replace(" ", ""))
        if isinstance(t, C.Constant):
            if derivs:
                return self.zero()
            return self.base(f"{self.tname(t)}{list(comp)}".replace(" ", ""))
        if isinstance(t, C.SpatialCoordinate):
            if not derivs:
                return self.real_base(f"x{comp[0]}")
            if len(derivs) == 1 and derivs[0][0] == "x":
                return self.const(1 if derivs[0][1] == comp[0] else 0)
            if all(k == "x" for k, _ in derivs):
                return self.zero()
            raise DenotationError("reference derivative of x in the physical env")
        if isinstance(t, C.GeometricQuantity):
            return self.geometric(t, comp, derivs, side)
        raise DenotationError(f"no symbol for terminal {type(t).__name__}")

    def geometric(self, t, comp, derivs, side):
        # opaque real symbols; piecewise constant ones have zero derivative
        if derivs:
            if t.is_cellwise_constant():
                return self.zero()
            raise DenotationError(f"derivative of {type(t).__name__}")
        s = f"@{side}" if side and not isinstance(t, C.GeometricFacetQuantity) else ""
        if isinstance(t, C.FacetNormal) and side:
            s = f"@{side}"
        return self.real_base(f"{type(t).__name__}{list(comp)}{s}".replace(" ", ""))

    def reference_value(self, f, comp, derivs, side):
        raise DenotationError("ReferenceValue in the physical env")


class Denoter:
    def __init__(self, env: Env):
        self.env = env
        env.den = self
        self.memo = {}
        self.max_pow = 8

    # -- helpers
    def lift_ctx(self, v, ctx):
        """Embed a base value as a constant of the tower."""
        for _ in ctx:
            v = Dual(v, ring.zero_like(v))
        return v

    def unit(self, ctx, k):
        """Tower element with 1 exactly at epsilon_k."""
        return _unit_tower(self.env.const(1), self.env.const(0), len(ctx), k)

    def const(self, v, ctx):
        return self.lift_ctx(self.env.const(v), ctx)

    # -- main
    def ev(self, e, comp=(), idx=None, ctx=(), side=None):
        idx = idx or {}
        fi = e.ufl_free_indices
        try:
            key = (id(e), comp, tuple(idx[i] for i in fi), ctx, side)
        except KeyError as ke:
            raise DenotationError(f"unbound free index {ke} in {type(e).__name__}")
        r = self.memo.get(key)
        if r is not None:
            return r[1]
        if len(comp) != len(e.ufl_shape):
            raise DenotationError(
                f"component {comp} does not match shape {e.ufl_shape} of {type(e).__name__}"
            )
        for c, s in zip(comp, e.ufl_shape):
            if not (0 <= c < s):
                raise DenotationError("component out of range")
        h = getattr(self, "n_" + type(e).__name__, None)
        if h is None:
            for klass in type(e).__mro__:
                h = getattr(self, "n_" + klass.__name__, None)
                if h is not None:
                    break
        if h is None:
            raise DenotationError(f"no denotation for {type(e).__name__}")
        v = h(e, comp, idx, ctx, side)
        self.memo[key] = (e, v)
        return v

    def components(self, e):
        return list(itertools.product(*[range(s) for s in e.ufl_shape]))

    def index_valuations(self, e):
        fi, fd = e.ufl_free_indices, e.ufl_index_dimensions
        for vals in itertools.product(*[range(d) for d in fd]):
            yield dict(zip(fi, vals))

    # ---- literals
    def n_Zero(self, e, comp, idx, ctx, side):
        return self.const(0, ctx)

    def n_IntValue(self, e, comp, idx, ctx, side):
        return self.const(int(e._value), ctx)

    def n_FloatValue(self, e, comp, idx, ctx, side):
        return self.const(float(e._value), ctx)

    def n_ComplexValue(self, e, comp, idx, ctx, side):
        return self.const(complex(e._value), ctx)

    def n_Identity(self, e, comp, idx, ctx, side):
        return self.const(1 if comp[0] == comp[1] else 0, ctx)

    def n_PermutationSymbol(self, e, comp, idx, ctx, side):
        return self.const(perm_parity(comp), ctx)

    # ---- terminals
    def term(self, t, comp, derivs, ctx, side):
        if not ctx:
            return self.env.symbol(t, comp, tuple(sorted(derivs)), side)
        p, rest = ctx[-1], ctx[:-1]
        real = self.term(t, comp, derivs, rest, side)
        kind = p[0]
        if kind in ("x", "X"):
            eps = self.term(t, comp, derivs + ((kind, p[1]),), rest, side)
        elif kind == "gat":
            m = self.env.gateaux[p[1]]
            cd = self.env.gateaux_cd.get(p[1], {})
            d = m.get(t)
            if isinstance(d, dict):  # per-component directions {comp: scalar expr}
                d = d.get(tuple(comp))
                dcomp = ()
            else:
                dcomp = comp
            if d is not None:
                eps = self.pure_derivative(d, dcomp, derivs, rest, side)
            elif t in cd:
                eps = cd[t](self, comp, derivs, rest, side)
            else:
                eps = ring.zero_like(real)
        elif kind == "coef":
            if isinstance(t, C.Coefficient) and t.count() == p[1] and not derivs and comp == p[2]:
                eps = self.lift_ctx(self.env.const(1), rest)
            else:
                eps = ring.zero_like(real)
        elif kind == "var":
            eps = ring.zero_like(real)
        else:
            raise DenotationError(f"perturbation {p}")
        return Dual(real, eps)

    def pure_derivative(self, e, comp, derivs, ctx, side, idx=None):
        """The mixed derivative D_derivs of expression e (value in the tower of ctx)."""
        full = ctx + tuple(derivs)
        v = self.ev(e, comp, idx or {}, full, side)
        for _ in derivs:
            v = v.b
        return v

    def n_Terminal(self, e, comp, idx, ctx, side):
        raise DenotationError(f"terminal {type(e).__name__}")

    def n_FormArgument(self, e, comp, idx, ctx, side):
        return self.term(e, comp, (), ctx, side)

    def n_Constant(self, e, comp, idx, ctx, side):
        return self.term(e, comp, (), ctx, side)

    def n_GeometricQuantity(self, e, comp, idx, ctx, side):
        return self.term(e, comp, (), ctx, side)

    def n_Variable(self, e, comp, idx, ctx, side):
        expr, label = e.ufl_operands
        v = self.ev(expr, comp, idx, ctx, side)
        for k, p in enumerate(ctx):
            if p[0] == "var" and p[1] == label.count() and p[2] == comp:
                v = v + _unit_tower(self.env.const(1), self.env.const(0), len(ctx), k)
        return v

    def n_ReferenceValue(self, e, comp, idx, ctx, side):
        (f,) = e.ufl_operands
        return self.term(e, comp, (), ctx, side)

    # ---- restrictions
    def n_PositiveRestricted(self, e, comp, idx, ctx, side):
        return self.ev(e.ufl_operands[0], comp, idx, ctx, "+")

    def n_NegativeRestricted(self, e, comp, idx, ctx, side):
        return self.ev(e.ufl_operands[0], comp, idx, ctx, "-")

    # ---- algebra
    def n_Sum(self, e, comp, idx, ctx, side):
        a, b = e.ufl_operands
        return self.ev(a, comp, idx, ctx, side) + self.ev(b, comp, idx, ctx, side)

    def n_Product(self, e, comp, idx, ctx, side):
        a, b = e.ufl_operands
        # scalar product; operands may share free indices only through enclosing sums
        return self.ev(a, (), idx, ctx, side) * self.ev(b, (), idx, ctx, side)

    def n_Division(self, e, comp, idx, ctx, side):
        a, b = e.ufl_operands
        return self.ev(a, comp, idx, ctx, side) / self.ev(b, (), idx, ctx, side)

    def literal_value(self, e):
        if isinstance(e, (C.IntValue, C.FloatValue)):
            return e._value
        if isinstance(e, C.Zero) and e.ufl_shape == ():
            return 0
        return None

    def n_Power(self, e, comp, idx, ctx, side):
        a, b = e.ufl_operands
        x = self.ev(a, (), idx, ctx, side)
        k = self.literal_value(b)
        if k is not None:
            q = float_literal(float(k)) if isinstance(k, float) else Fraction(int(k))
            if q.denominator == 1 and abs(q) <= self.max_pow:
                return x ** int(q)
            if q.denominator == 2 and abs(q.numerator) <= 2 * self.max_pow:
                return ring.sqrtval(x) ** int(q.numerator)
        y = self.ev(b, (), idx, ctx, side)
        return self.powfn(x, y)

    def powfn(self, x, y):
        def dx(x, y):
            return y * self.powfn(x, y - ring.one_like(y))

        def dy(x, y):
            return self.powfn(x, y) * ring.apply_fn("ln", x)

        return ring.apply_fn2("pow", x, y, dx, dy)

    def n_Abs(self, e, comp, idx, ctx, side):
        return ring.absval(self.ev(e.ufl_operands[0], comp, idx, ctx, side))

    def n_Conj(self, e, comp, idx, ctx, side):
        return ring.conj(self.ev(e.ufl_operands[0], comp, idx, ctx, side))

    def n_Real(self, e, comp, idx, ctx, side):
        return ring.real(self.ev(e.ufl_operands[0], comp, idx, ctx, side))

    def n_Imag(self, e, comp, idx, ctx, side):
        return ring.imag(self.ev(e.ufl_operands[0], comp, idx, ctx, side))

    # ---- conditions (Bool terms on the primal real part)
    def real_primal(self, v):
        v = ring.primal(v)
        if isinstance(v, Cx):
            return v.re
        return v

    def cond(self, c, idx, ctx, side):
        if isinstance(c, C.BinaryCondition) and not isinstance(c, (C.AndCondition, C.OrCondition)):
            a, b = c.ufl_operands
            x = self.real_primal(self.ev(a, (), idx, ctx, side))
            y = self.real_primal(self.ev(b, (), idx, ctx, side))
            if self.env.complex_mode and isinstance(c, (C.EQ, C.NE)):
                xa = ring.primal(self.ev(a, (), idx, ctx, side))
                ya = ring.primal(self.ev(b, (), idx, ctx, side))
                t = Cx.of(xa).eq(Cx.of(ya))
                return t if isinstance(c, C.EQ) else tm.not_(t)
            if isinstance(c, C.EQ):
                return x.eq(y)
            if isinstance(c, C.NE):
                return tm.not_(x.eq(y))
            if isinstance(c, C.LT):
                return x.lt(y)
            if isinstance(c, C.LE):
                return x.le(y)
            if isinstance(c, C.GT):
                return y.lt(x)
            if isinstance(c, C.GE):
                return y.le(x)
        if isinstance(c, C.AndCondition):
            return tm.and_(*[self.cond(o, idx, ctx, side) for o in c.ufl_operands])
        if isinstance(c, C.OrCondition):
            return tm.or_(*[self.cond(o, idx, ctx, side) for o in c.ufl_operands])
        if isinstance(c, C.NotCondition):
            return tm.not_(self.cond(c.ufl_operands[0], idx, ctx, side))
        raise DenotationError(f"condition {type(c).__name__}")

    def n_Conditional(self, e, comp, idx, ctx, side):
        c, t, f = e.ufl_operands
        chooser = getattr(self.env, "chooser", None)
        if chooser is not None:
            # path-wise denotation (C24): the condition is decided at a concrete point, recorded by the chooser,
            # and only the selected branch contributes (its divisors are the only definedness conditions)
            return self.ev(t if chooser(self.cond(c, idx, ctx, side)) else f, comp, idx, ctx, side)
        return ring.ite(
            self.cond(c, idx, ctx, side),
            self.ev(t, comp, idx, ctx, side),
            self.ev(f, comp, idx, ctx, side),
        )

    def n_MinValue(self, e, comp, idx, ctx, side):
        a, b = e.ufl_operands
        x, y = self.ev(a, (), idx, ctx, side), self.ev(b, (), idx, ctx, side)
        return ring.ite(self.real_primal(x).lt(self.real_primal(y)), x, y)

    def n_MaxValue(self, e, comp, idx, ctx, side):
        a, b = e.ufl_operands
        x, y = self.ev(a, (), idx, ctx, side), self.ev(b, (), idx, ctx, side)
        return ring.ite(self.real_primal(y).lt(self.real_primal(x)), x, y)

    # ---- math functions
    def n_MathFunction(self, e, comp, idx, ctx, side):
        return ring.apply_fn(e._name, self.ev(e.ufl_operands[0], (), idx, ctx, side))

    def n_Atan2(self, e, comp, idx, ctx, side):
        a, b = e.ufl_operands
        y, x = self.ev(a, (), idx, ctx, side), self.ev(b, (), idx, ctx, side)

        def dy(y, x):
            return x / (x * x + y * y)

        def dx(y, x):
            return -(y / (x * x + y * y))

        return ring.apply_fn2("atan2", y, x, dy, dx)

    def n_BesselFunction(self, e, comp, idx, ctx, side):
        nu, x = e.ufl_operands
        n = self.literal_value(nu)
        if n is None or int(n) != n:
            raise DenotationError("bessel order")
        nm = {"cyl_bessel_j": "bessel_J", "cyl_bessel_y": "bessel_Y", "cyl_bessel_i": "bessel_I",
              "cyl_bessel_k": "bessel_K"}.get(e._name, e._name)
        return bessel(nm, int(n), self.ev(x, (), idx, ctx, side))

    # ---- indexing
    def n_Indexed(self, e, comp, idx, ctx, side):
        A, ii = e.ufl_operands
        c = []
        for i in ii.indices():
            if isinstance(i, C.FixedIndex):
                c.append(int(i))
            else:
                try:
                    c.append(idx[i.count()])
                except KeyError as ke:
                    raise DenotationError(f"unbound index {ke}")
        return self.ev(A, tuple(c), idx, ctx, side)

    def n_IndexSum(self, e, comp, idx, ctx, side):
        A, ii = e.ufl_operands
        (i,) = ii.indices()
        r = None
        for k in range(e.dimension()):
            idx2 = dict(idx)
            idx2[i.count()] = k
            v = self.ev(A, comp, idx2, ctx, side)
            r = v if r is None else r + v
        return r

    def n_ComponentTensor(self, e, comp, idx, ctx, side):
        A, ii = e.ufl_operands
        idx2 = dict(idx)
        for i, c in zip(ii.indices(), comp):
            idx2[i.count()] = c
        return self.ev(A, (), idx2, ctx, side)

    def n_ListTensor(self, e, comp, idx, ctx, side):
        return self.ev(e.ufl_operands[comp[0]], comp[1:], idx, ctx, side)

    # ---- compound tensor algebra (defining equations)
    def mat(self, A, idx, ctx, side):
        sh = A.ufl_shape
        if len(sh) != 2:
            raise DenotationError("matrix expected")
        return [[self.ev(A, (i, j), idx, ctx, side) for j in range(sh[1])] for i in range(sh[0])]

    def n_Transposed(self, e, comp, idx, ctx, side):
        return self.ev(e.ufl_operands[0], (comp[1], comp[0]), idx, ctx, side)

    def n_Outer(self, e, comp, idx, ctx, side):
        a, b = e.ufl_operands
        ra = len(a.ufl_shape)
        return ring.conj(self.ev(a, comp[:ra], idx, ctx, side)) * self.ev(b, comp[ra:], idx, ctx, side)

    def n_Inner(self, e, comp, idx, ctx, side):
        a, b = e.ufl_operands
        r = None
        for c in self.components(a):
            v = self.ev(a, c, idx, ctx, side) * ring.conj(self.ev(b, c, idx, ctx, side))
            r = v if r is None else r + v
        return r

    def n_Dot(self, e, comp, idx, ctx, side):
        a, b = e.ufl_operands
        ra = len(a.ufl_shape) - 1
        ca, cb = comp[:ra], comp[ra:]
        r = None
        for k in range(a.ufl_shape[-1]):
            v = self.ev(a, ca + (k,), idx, ctx, side) * self.ev(b, (k,) + cb, idx, ctx, side)
            r = v if r is None else r + v
        return r

    def n_Perp(self, e, comp, idx, ctx, side):
        (v,) = e.ufl_operands
        if comp[0] == 0:
            return -self.ev(v, (1,), idx, ctx, side)
        return self.ev(v, (0,), idx, ctx, side)

    def n_Cross(self, e, comp, idx, ctx, side):
        a, b = e.ufl_operands
        i = comp[0]
        j, k = (i + 1) % 3, (i + 2) % 3
        return self.ev(a, (j,), idx, ctx, side) * self.ev(b, (k,), idx, ctx, side) - self.ev(
            a, (k,), idx, ctx, side
        ) * self.ev(b, (j,), idx, ctx, side)

    def n_Trace(self, e, comp, idx, ctx, side):
        (A,) = e.ufl_operands
        r = None
        for i in range(A.ufl_shape[0]):
            v = self.ev(A, (i, i), idx, ctx, side)
            r = v if r is None else r + v
        return r

    def n_Determinant(self, e, comp, idx, ctx, side):
        (A,) = e.ufl_operands
        if A.ufl_shape == ():
            return self.ev(A, (), idx, ctx, side)
        M = self.mat(A, idx, ctx, side)
        m, n = len(M), len(M[0])
        if m == n:
            return det(M)
        return ring.sqrtval(det(gram(M)))

    def n_Inverse(self, e, comp, idx, ctx, side):
        (A,) = e.ufl_operands
        if A.ufl_shape == ():
            return ring.inv(self.ev(A, (), idx, ctx, side))
        key = ("inv", id(e), tuple(sorted(idx.items())), ctx, side)
        R = self.memo.get(key)
        if R is None:
            M = self.mat(A, idx, ctx, side)
            R = (e, inverse(M) if len(M) == len(M[0]) else pinv(M))
            self.memo[key] = R
        return R[1][comp[0]][comp[1]]

    def n_Cofactor(self, e, comp, idx, ctx, side):
        (A,) = e.ufl_operands
        M = self.mat(A, idx, ctx, side)
        return cofactor(M, comp[0], comp[1])

    def n_Deviatoric(self, e, comp, idx, ctx, side):
        (A,) = e.ufl_operands
        n = A.ufl_shape[0]
        v = self.ev(A, comp, idx, ctx, side)
        if comp[0] != comp[1]:
            return v
        tr = None
        for i in range(n):
            t = self.ev(A, (i, i), idx, ctx, side)
            tr = t if tr is None else tr + t
        return v - tr * self.const(Fraction(1, n), ctx)

    def n_Skew(self, e, comp, idx, ctx, side):
        (A,) = e.ufl_operands
        return (
            self.ev(A, comp, idx, ctx, side) - self.ev(A, (comp[1], comp[0]), idx, ctx, side)
        ) * self.const(Fraction(1, 2), ctx)

    def n_Sym(self, e, comp, idx, ctx, side):
        (A,) = e.ufl_operands
        return (
            self.ev(A, comp, idx, ctx, side) + self.ev(A, (comp[1], comp[0]), idx, ctx, side)
        ) * self.const(Fraction(1, 2), ctx)

    # ---- differentiation
    def D(self, f, comp, idx, ctx, side, pert):
        return self.ev(f, comp, idx, ctx + (pert,), side).b

    def n_Grad(self, e, comp, idx, ctx, side):
        (f,) = e.ufl_operands
        return self.D(f, comp[:-1], idx, ctx, side, ("x", comp[-1]))

    def n_ReferenceGrad(self, e, comp, idx, ctx, side):
        (f,) = e.ufl_operands
        return self.D(f, comp[:-1], idx, ctx, side, ("X", comp[-1]))

    def n_NablaGrad(self, e, comp, idx, ctx, side):
        (f,) = e.ufl_operands
        return self.D(f, comp[1:], idx, ctx, side, ("x", comp[0]))

    def gdim_of(self, f):
        return ufl.domain.find_geometric_dimension(f)

    def n_Div(self, e, comp, idx, ctx, side):
        (f,) = e.ufl_operands
        r = None
        for i in range(f.ufl_shape[-1]):
            v = self.D(f, comp + (i,), idx, ctx, side, ("x", i))
            r = v if r is None else r + v
        return r

    def n_ReferenceDiv(self, e, comp, idx, ctx, side):
        (f,) = e.ufl_operands
        r = None
        for i in range(f.ufl_shape[-1]):
            v = self.D(f, comp + (i,), idx, ctx, side, ("X", i))
            r = v if r is None else r + v
        return r

    def n_NablaDiv(self, e, comp, idx, ctx, side):
        (f,) = e.ufl_operands
        r = None
        for i in range(f.ufl_shape[0]):
            v = self.D(f, (i,) + comp, idx, ctx, side, ("x", i))
            r = v if r is None else r + v
        return r

    def _curl(self, e, comp, idx, ctx, side, kind):
        (f,) = e.ufl_operands
        sh = f.ufl_shape
        if sh == (3,):
            i = comp[0]
            j, k = (i + 1) % 3, (i + 2) % 3
            return self.D(f, (k,), idx, ctx, side, (kind, j)) - self.D(
                f, (j,), idx, ctx, side, (kind, k)
            )
        if sh == (2,):
            return self.D(f, (1,), idx, ctx, side, (kind, 0)) - self.D(
                f, (0,), idx, ctx, side, (kind, 1)
            )
        if sh == ():
            if comp[0] == 0:
                return self.D(f, (), idx, ctx, side, (kind, 1))
            return -self.D(f, (), idx, ctx, side, (kind, 0))
        raise DenotationError("curl shape")

    def n_Curl(self, e, comp, idx, ctx, side):
        return self._curl(e, comp, idx, ctx, side, "x")

    def n_ReferenceCurl(self, e, comp, idx, ctx, side):
        return self._curl(e, comp, idx, ctx, side, "X")

    def n_VariableDerivative(self, e, comp, idx, ctx, side):
        f, v = e.ufl_operands
        rf = len(f.ufl_shape)
        cf, cv = comp[:rf], comp[rf:]
        if isinstance(v, C.Variable):
            pert = ("var", v.ufl_operands[1].count(), cv)
        elif isinstance(v, C.Coefficient):
            pert = ("coef", v.count(), cv)
        else:
            raise DenotationError("diff w.r.t. " + type(v).__name__)
        return self.D(f, cf, idx, ctx, side, pert)

    def n_CoefficientDerivative(self, e, comp, idx, ctx, side):
        f, ws, vs, cds = e.ufl_operands
        key = ("gat", id(e))
        if key[1] not in self.env.gateaux:
            m = {}
            for w, v in zip(ws.ufl_operands, vs.ufl_operands):
                if isinstance(w, C.Indexed):
                    raise DenotationError("indexed coefficient in CoefficientDerivative")
                m[w] = v
            self.env.gateaux[id(e)] = m
            cd = {}
            ops = cds.ufl_operands
            for g, dg in zip(ops[0::2], ops[1::2]):
                cd[g] = self._cd_rule(g, dg, ws.ufl_operands, vs.ufl_operands)
            self.env.gateaux_cd[id(e)] = cd
        return self.D(f, comp, idx, ctx, side, ("gat", id(e)))

    def _cd_rule(self, g, dg, ws, vs):
        # user relation: d g / d w = dg  (shape g.shape + w.shape), single w supported
        if len(ws) != 1:
            raise DenotationError("coefficient_derivatives with several coefficients")
        (w,), (v,) = ws, vs

        def rule(den, comp, derivs, ctx, side):
            if derivs:
                raise DenotationError("spatial derivative of a user-related coefficient")
            r = None
            for cw in den.components(w):
                t = den.ev(dg, comp + cw, {}, ctx, side) * den.ev(v, cw, {}, ctx, side)
                r = t if r is None else r + t
            return r

        return rule


def _unit_tower(one, zero, depth, k):
    """Nested Dual of the given depth equal to epsilon_k (k counted from the
    innermost perturbation 0)."""

    def rec(level, coeff):
        # value of the sub-tower of `level` perturbations [0..level) for coefficient
        if level == 0:
            return coeff
        j = level - 1
        if j == k:
            return Dual(rec(j, zero), rec(j, coeff))
        return Dual(rec(j, coeff), rec(j, zero))

    return rec(depth, one)


# -- small dense linear algebra on ring values (permutation-sum definitions)


def det(M):
    n = len(M)
    r = None
    for p in itertools.permutations(range(n)):
        s = perm_parity(p)
        t = None
        for i in range(n):
            t = M[i][p[i]] if t is None else t * M[i][p[i]]
        t = t if s > 0 else -t
        r = t if r is None else r + t
    return r


def minor(M, i, j):
    return [[M[a][b] for b in range(len(M)) if b != j] for a in range(len(M)) if a != i]


def cofactor(M, i, j):
    n = len(M)
    if n == 1:
        return ring.one_like(M[0][0])
    d = det(minor(M, i, j))
    return d if (i + j) % 2 == 0 else -d


def inverse(M):
    n = len(M)
    d = det(M)
    return [[cofactor(M, j, i) / d for j in range(n)] for i in range(n)]


def transpose(M):
    return [[M[i][j] for i in range(len(M))] for j in range(len(M[0]))]


def matmul(A, B):
    R = []
    for i in range(len(A)):
        row = []
        for j in range(len(B[0])):
            r = None
            for k in range(len(B)):
                t = A[i][k] * B[k][j]
                r = t if r is None else r + t
            row.append(r)
        R.append(row)
    return R


def gram(M):
    # conj-free Gram matrix A^T A (UFL's pseudo-determinant/-inverse are for real geometry)
    return matmul(transpose(M), M)


def pinv(M):
    G = gram(M)
    Gi = inverse(G) if len(G) > 1 else [[ring.inv(G[0][0])]]
    return matmul(Gi, transpose(M))


# -- Bessel functions: uninterpreted with the recurrence derivatives


def bessel(name, n, x):
    """name in bessel_J/Y/I/K."""
    if isinstance(x, Dual):
        return Dual(bessel(name, n, x.a), bessel_deriv(name, n, x.a) * x.b)
    if isinstance(x, Cx):
        raise DenotationError("bessel on complex")
    tag = f"{name}_{n}".replace("-", "m")
    return Frac(tm.uf("uf_" + tag, ring.frac_arg(Frac.of(x))))


def bessel_deriv(name, n, x):
    half = ring.const_like(x, Fraction(1, 2))
    if name in ("bessel_J", "bessel_Y"):
        if n == 0:
            return -bessel(name, 1, x)
        return half * (bessel(name, n - 1, x) - bessel(name, n + 1, x))
    if name == "bessel_I":
        if n == 0:
            return bessel(name, 1, x)
        return half * (bessel(name, n - 1, x) + bessel(name, n + 1, x))
    if name == "bessel_K":
        if n == 0:
            return -bessel(name, 1, x)
        return -(half * (bessel(name, n - 1, x) + bessel(name, n + 1, x)))
    raise DenotationError(name)
