"""Symbolic numbers for running UFL's own `evaluate` methods (C24).

A SymVal carries a ring term (vlib.ring.Frac) and an exact concrete shadow.  Arithmetic builds terms;
comparisons return SymBool, whose truth value is the shadow's and which records (condition term, outcome)
in the current path; float()/complex() conversions (math.* functions) concretise and mark the run tainted.
"""

from __future__ import annotations

from fractions import Fraction

from . import ring
from . import terms as tm
from .ring import Frac


class Run:
    def __init__(self):
        self.path = []       # (Bool term, outcome)
        self.tainted = False
        self.taint_where = None


RUN = Run()


def new_run():
    global RUN
    RUN = Run()
    return RUN


def _lift(x):
    if isinstance(x, SymVal):
        return x
    if isinstance(x, bool):
        x = int(x)
    if isinstance(x, int):
        return SymVal(Frac(tm.const(x)), Fraction(x))
    if isinstance(x, float):
        from .denote import float_literal

        q = float_literal(x)
        return SymVal(Frac(tm.const(q)), q)
    if isinstance(x, Fraction):
        return SymVal(Frac(tm.const(x)), x)
    return NotImplemented


class SymBool:
    def __init__(self, term, shadow):
        self.term = term
        self.shadow = bool(shadow)

    def __bool__(self):
        RUN.path.append((self.term, self.shadow))
        return self.shadow


class SymVal:
    __slots__ = ("t", "s")

    def __init__(self, t, s):
        self.t = t
        self.s = Fraction(s)

    def _bin(self, o, f, g):
        o = _lift(o)
        if o is NotImplemented:
            return NotImplemented
        return SymVal(f(self.t, o.t), g(self.s, o.s))

    def __add__(self, o):
        return self._bin(o, lambda a, b: a + b, lambda a, b: a + b)

    __radd__ = __add__

    def __sub__(self, o):
        return self._bin(o, lambda a, b: a - b, lambda a, b: a - b)

    def __rsub__(self, o):
        o = _lift(o)
        return o.__sub__(self)

    def __mul__(self, o):
        return self._bin(o, lambda a, b: a * b, lambda a, b: a * b)

    __rmul__ = __mul__

    def __truediv__(self, o):
        o = _lift(o)
        if o is NotImplemented:
            return NotImplemented
        if o.s == 0:
            raise ZeroDivisionError("division by zero (symbolic value with shadow 0)")
        return SymVal(self.t / o.t, self.s / o.s)

    def __rtruediv__(self, o):
        return _lift(o).__truediv__(self)

    def __neg__(self):
        return SymVal(-self.t, -self.s)

    def __pos__(self):
        return self

    def __abs__(self):
        return SymVal(ring.frac_abs(self.t), abs(self.s))

    def __pow__(self, o):
        if isinstance(o, SymVal):
            k = o.t.const_value()
            if k is None:
                # symbolic exponent: the same uninterpreted pow the denotation uses (python's float pow as shadow)
                import math

                val = math.pow(float(self.s), float(o.s))  # ValueError outside the real domain, as float ** float complex
                return SymVal(ring.apply_fn2("pow", self.t, o.t, None, None), Fraction(val))
            o = k
        if isinstance(o, float) and o == int(o):
            o = int(o)
        if isinstance(o, Fraction) and o.denominator == 1:
            o = int(o)
        if isinstance(o, int):
            if o < 0 and self.s == 0:
                raise ZeroDivisionError("0 ** negative")
            return SymVal(self.t ** o, self.s ** o)
        if isinstance(o, (float, Fraction)) and Fraction(o).limit_denominator(2) == Fraction(o):
            q = Fraction(o)
            if self.s < 0:
                raise ValueError("fractional power of a negative number")
            import math

            r = Fraction(math.sqrt(float(self.s))).limit_denominator(10**9)
            return SymVal(ring.frac_sqrt(self.t) ** int(q * 2), r ** int(q * 2))
        RUN.tainted, RUN.taint_where = True, f"power {o}"
        return SymVal(Frac(tm.const(0)), 0)

    def __rpow__(self, o):
        o = _lift(o)
        if o is NotImplemented:
            return NotImplemented
        return o.__pow__(self)

    # comparisons
    def _cmp(self, o, mk, py):
        o = _lift(o)
        return SymBool(mk(self.t, o.t), py(self.s, o.s))

    def __lt__(self, o):
        return self._cmp(o, lambda a, b: a.lt(b), lambda a, b: a < b)

    def __le__(self, o):
        return self._cmp(o, lambda a, b: a.le(b), lambda a, b: a <= b)

    def __gt__(self, o):
        return self._cmp(o, lambda a, b: b.lt(a), lambda a, b: a > b)

    def __ge__(self, o):
        return self._cmp(o, lambda a, b: b.le(a), lambda a, b: a >= b)

    def __eq__(self, o):
        o2 = _lift(o)
        if o2 is NotImplemented:
            return False
        return self._cmp(o2, lambda a, b: a.eq(b), lambda a, b: a == b)

    def __ne__(self, o):
        o2 = _lift(o)
        if o2 is NotImplemented:
            return True
        return self._cmp(o2, lambda a, b: tm.not_(a.eq(b)), lambda a, b: a != b)

    __hash__ = None

    def __bool__(self):
        b = SymBool(tm.not_(self.t.eq(Frac(tm.const(0)))), self.s != 0)
        return bool(b)

    def __float__(self):
        RUN.tainted, RUN.taint_where = True, "float() conversion (math.* boundary)"
        return float(self.s)

    def __complex__(self):
        RUN.tainted, RUN.taint_where = True, "complex() conversion"
        return complex(float(self.s))

    def conjugate(self):
        return self

    @property
    def real(self):
        return self

    @property
    def imag(self):
        return SymVal(Frac(tm.const(0)), 0)

    def __repr__(self):
        return f"SymVal({self.s})"


# --------------------------------------------------------------------------
# stub of the C-level math module (installed as ufl.mathfunctions.math by the C24 harness)
# --------------------------------------------------------------------------

import math as _math
import numbers as _numbers

_numbers.Real.register(SymVal)  # MathFunction.evaluate takes the math (not cmath) route for real numbers

_UFL_NAME = {"log": "ln"}


class MathStub:
    """math.<f>(SymVal) -> SymVal whose term is the uninterpreted/defined function the denotation uses for <f>
    and whose shadow is the C function's double result; everything else is forwarded to the real module.
    Assumption recorded in the evidence: math.<f> computes <f>."""

    def __getattr__(self, name):
        real = getattr(_math, name)
        if not callable(real):
            return real

        def wrapper(*args):
            if not any(isinstance(a, SymVal) for a in args):
                return real(*args)
            args = [_lift(a) for a in args]
            val = real(*[float(a.s) for a in args])  # raises ValueError outside the domain, like the real call
            uname = _UFL_NAME.get(name, name)
            if len(args) == 1:
                return SymVal(ring.apply_fn(uname, args[0].t), Fraction(val))
            if name == "atan2":
                return SymVal(ring.apply_fn2("atan2", args[0].t, args[1].t, None, None), Fraction(val))
            if name == "pow":
                return SymVal(ring.apply_fn2("pow", args[0].t, args[1].t, None, None), Fraction(val))
            RUN.tainted, RUN.taint_where = True, f"math.{name}"
            return val

        return wrapper
