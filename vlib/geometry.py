"""Geometry environment: an affine simplex cell given by symbolic data, and the
reference semantics of UFL's geometric terminals and of form arguments under
their element's declared push-forward.

Two parametrisations:
  mode="J":        Jacobian entries and the cell origin are free symbols
  mode="vertices": vertex coordinates are free symbols, J[:, j] = v_{j+1} - v_0
Everything else is *defined* here from J / the vertices with generic
permutation-sum determinant / adjugate code (vlib.denote), independently of
UFL's lowering tables.  Reference-cell data (facet numbering, reference
normals, reference volumes, edge numbering) follow the FIAT/UFC reference
simplex with vertices 0, e_1, ..., e_t: facet f is opposite vertex f.
"""

from __future__ import annotations

import itertools
from fractions import Fraction

import ufl.classes as C

from . import denote, ring
from . import terms as tm
from .denote import Env
from .ring import Cx, DenotationError, Frac

TDIM = {"interval": 1, "triangle": 2, "tetrahedron": 3}

# vertices of facet f (opposite vertex f), in increasing order
def facet_vertices(tdim, f):
    if tdim == 1:
        return [f]  # the facets of an interval are its vertices, numbered as vertices
    return [v for v in range(tdim + 1) if v != f]


def opposite_vertex(tdim, f):
    return 1 - f if tdim == 1 else f


# edges: UFC numbering
EDGES = {
    1: [(0, 1)],
    2: [(1, 2), (0, 2), (0, 1)],
    3: [(2, 3), (1, 3), (1, 2), (0, 3), (0, 2), (0, 1)],
}
REF_CELL_VOLUME = {1: Fraction(1), 2: Fraction(1, 2), 3: Fraction(1, 6)}
REF_FACET_VOLUME = {1: Fraction(1), 2: Fraction(1), 3: Fraction(1, 2)}


def ref_vertex(tdim, k):
    return [Fraction(1 if (k - 1) == c else 0) for c in range(tdim)]


def cell_facet_jacobian(tdim, f):
    """tdim x (tdim-1): columns = reference facet edge vectors v_{fk} - v_{f0}."""
    vs = facet_vertices(tdim, f)
    v0 = ref_vertex(tdim, vs[0])
    cols = [[a - b for a, b in zip(ref_vertex(tdim, v), v0)] for v in vs[1:]]
    return [[cols[j][i] for j in range(tdim - 1)] for i in range(tdim)]


class GeomEnv(Env):
    def __init__(self, cellname, gdim=None, mode="J", complex_mode=False, facet=None,
                 facets=None, reference_fields=False):
        super().__init__(complex_mode)
        self.cellname = cellname
        self.tdim = TDIM[cellname]
        self.gdim = gdim or self.tdim
        self.mode = mode
        self.facet = facet  # local facet number for facet quantities (exterior facet)
        self.facets = facets or {}  # side -> local facet number (interior facet)
        self.reference_fields = reference_fields
        self._cache = {}

    # ---- scalars of the real base ring
    def R(self, t):
        f = Frac(tm.lift(t))
        return Cx(f) if self.complex_mode else f

    def rsym(self, name):
        return self.R(tm.var(name))

    def _side(self, side):
        return f"@{side}" if side else ""

    # ---- primary data
    def vertices(self, side=None):
        key = ("V", side)
        if key not in self._cache:
            s = self._side(side)
            self._cache[key] = [[self.rsym(f"vx{k}_{c}{s}") for c in range(self.gdim)]
                                for k in range(self.tdim + 1)]
        return self._cache[key]

    def J(self, side=None):
        key = ("J", side)
        if key not in self._cache:
            s = self._side(side)
            if self.mode == "vertices":
                V = self.vertices(side)
                M = [[V[j + 1][i] - V[0][i] for j in range(self.tdim)] for i in range(self.gdim)]
            else:
                M = [[self.rsym(f"J{i}{j}{s}") for j in range(self.tdim)] for i in range(self.gdim)]
            self._cache[key] = M
        return self._cache[key]

    def x0(self, side=None):
        if self.mode == "vertices":
            return self.vertices(side)[0]
        s = self._side(side)
        return [self.rsym(f"x0_{c}{s}") for c in range(self.gdim)]

    def K(self, side=None):
        key = ("K", side)
        if key not in self._cache:
            J = self.J(side)
            if self.gdim == self.tdim:
                self._cache[key] = denote.inverse(J) if self.tdim > 1 else [[ring.inv(J[0][0])]]
            else:
                self._cache[key] = denote.pinv(J)
        return self._cache[key]

    def orientation(self, side=None):
        """CellOrientation: a symbol co with co^2 = 1 (immersed cells only)."""
        key = ("co", side)
        if key not in self._cache:
            v = tm.var(f"co{self._side(side)}")
            ring.ST.facts.append(tm.eq(tm.mul(v, v), tm.const(1)))
            ring.ST.squares[v.id] = tm.const(1)
            self._cache[key] = self.R(v)
        return self._cache[key]

    def pseudo_det(self, M):
        m, n = len(M), len(M[0])
        if m == n:
            return denote.det(M) if m > 1 else M[0][0]
        return ring.sqrtval(denote.det(denote.gram(M)) if n > 1 else denote.gram(M)[0][0])

    def detJ(self, side=None):
        """JacobianDeterminant as UFL defines it: det J, or orientation * pseudo-det on manifolds."""
        key = ("detJ", side)
        if key not in self._cache:
            d = self.pseudo_det(self.J(side))
            if self.gdim > self.tdim:
                d = self.orientation(side) * d
            self._cache[key] = d
        return self._cache[key]

    def X(self, side=None):
        s = self._side(side)
        return [self.rsym(f"X{j}{s}") for j in range(self.tdim)]

    def x(self, side=None):
        J, X, x0 = self.J(side), self.X(side), self.x0(side)
        out = []
        for c in range(self.gdim):
            r = x0[c]
            for j in range(self.tdim):
                r = r + J[c][j] * X[j]
            out.append(r)
        return out

    def facet_of(self, side):
        if side and side in self.facets:
            return self.facets[side]
        if self.facet is None:
            raise DenotationError("facet quantity without a facet number in the environment")
        return self.facet

    def CFJ(self, side=None):
        f = self.facet_of(side)
        M = cell_facet_jacobian(self.tdim, f)
        return [[self.const(q) for q in row] for row in M]

    def FJ(self, side=None):
        return denote.matmul(self.J(side), self.CFJ(side))

    def ref_normal(self, side=None):
        """Outward reference normal of facet f (unit)."""
        f = self.facet_of(side)
        t = self.tdim
        if f == 0:
            if t == 1:
                return [self.const(-1)]
            # facet opposite the origin: (1,...,1)/sqrt(t)
            inv = ring.inv(ring.sqrtval(self.const(t)))
            return [inv for _ in range(t)]
        if t == 1:
            return [self.const(1)]
        return [self.const(-1 if c == f - 1 else 0) for c in range(t)]

    # ---- geometric terminals
    def geometric(self, t, comp, derivs, side):
        name = type(t).__name__
        if derivs:
            # affine cell: everything but x and X is constant
            if isinstance(t, C.CellCoordinate):
                return self._dX(comp, derivs, side)
            return self.zero()
        if isinstance(t, C.Jacobian):
            return self.J(side)[comp[0]][comp[1]]
        if isinstance(t, C.JacobianInverse):
            return self.K(side)[comp[0]][comp[1]]
        if isinstance(t, C.JacobianDeterminant):
            return self.detJ(side)
        if isinstance(t, C.CellOrigin):
            return self.x0(side)[comp[0]]
        if isinstance(t, C.CellCoordinate):
            return self.X(side)[comp[0]]
        if isinstance(t, C.CellOrientation):
            return self.orientation(side)
        if isinstance(t, C.QuadratureWeight):
            return self.rsym("qw")
        if isinstance(t, C.ReferenceCellVolume):
            return self.const(REF_CELL_VOLUME[self.tdim])
        if isinstance(t, C.ReferenceFacetVolume):
            return self.const(REF_FACET_VOLUME[self.tdim])
        if isinstance(t, C.CellFacetJacobian):
            return self.CFJ(side)[comp[0]][comp[1]]
        if isinstance(t, C.FacetJacobian):
            return self.FJ(side)[comp[0]][comp[1]]
        if isinstance(t, C.FacetJacobianDeterminant):
            return self.pseudo_det(self.FJ(side))
        if isinstance(t, C.FacetJacobianInverse):
            FJ = self.FJ(side)
            P = denote.inverse(FJ) if len(FJ) == len(FJ[0]) and len(FJ) > 1 else (
                [[ring.inv(FJ[0][0])]] if len(FJ) == len(FJ[0]) else denote.pinv(FJ))
            return P[comp[0]][comp[1]]
        if isinstance(t, C.ReferenceNormal):
            return self.ref_normal(side)[comp[0]]
        if isinstance(t, C.CellVertices):
            return self.vertex_coords(side)[comp[0]][comp[1]]
        if isinstance(t, C.CellEdgeVectors):
            V = self.vertex_coords(side)
            a, b = EDGES[self.tdim][comp[0]]
            return V[b][comp[1]] - V[a][comp[1]]
        if isinstance(t, C.FacetEdgeVectors):
            V = self.vertex_coords(side)
            f = self.facet_of(side)
            fv = facet_vertices(self.tdim, f)
            # edges of the facet, numbered like the edges of the reference triangle on its vertices
            a, b = EDGES[self.tdim - 1][comp[0]]
            return V[fv[b]][comp[1]] - V[fv[a]][comp[1]]
        import math as _m

        def _dot(a, b):
            r = None
            for x_, y_ in zip(a, b):
                t_ = x_ * y_
                r = t_ if r is None else r + t_
            return r

        def _gramdet(M):
            G = denote.gram(M)
            return denote.det(G) if len(G) > 1 else G[0][0]

        if isinstance(t, C.CellVolume):
            return ring.sqrtval(_gramdet(self.J(side))) * self.const(Fraction(1, _m.factorial(self.tdim)))
        if isinstance(t, C.FacetArea):
            if self.tdim == 1:
                return self.const(1)
            return ring.sqrtval(_gramdet(self.FJ(side))) * self.const(Fraction(1, _m.factorial(self.tdim - 1)))
        if isinstance(t, C.FacetNormal):
            return self.facet_normal(side)[comp[0]]
        if isinstance(t, C.CellNormal):
            return self.cell_normal(side)[comp[0]]
        if isinstance(t, C.Circumradius):
            J = self.J(side)
            G = denote.gram(J)
            half = self.const(Fraction(1, 2))
            if self.tdim == 1:
                y = [half]
            else:
                Gi = denote.inverse(G)
                y = [_dot(Gi[i], [G[k][k] * half for k in range(self.tdim)]) for i in range(self.tdim)]
            return ring.sqrtval(_dot(y, [_dot(G[i], y) for i in range(self.tdim)]))
        if isinstance(t, (C.CellDiameter, C.MaxCellEdgeLength, C.MinCellEdgeLength, C.MaxFacetEdgeLength,
                          C.MinFacetEdgeLength)):
            V = self.vertex_coords(side)
            if "Facet" in name:
                fv = facet_vertices(self.tdim, self.facet_of(side))
                edges = [(fv[a], fv[b]) for a, b in EDGES[self.tdim - 1]]
            else:
                edges = EDGES[self.tdim]
            sq = []
            for a, b in edges:
                d = [V[b][c] - V[a][c] for c in range(self.gdim)]
                sq.append(_dot(d, d))
            want = sq[0]
            for s_ in sq[1:]:
                fs, fw = (ring.primal(s_), ring.primal(want))
                fs = fs.re if isinstance(fs, Cx) else fs
                fw = fw.re if isinstance(fw, Cx) else fw
                want = ring.ite(fs.lt(fw), s_, want) if name.startswith("Min") else ring.ite(fw.lt(fs), s_, want)
            return ring.sqrtval(want)
        raise DenotationError(f"no geometric semantics for {name}")

    def facet_normal(self, side=None):
        """Unit outward normal of the facet in the cell's tangent space: K^T n_ref normalised
        (tdim 1: +-J[:, 0] normalised).  C07 checks UFL's lowering against the defining predicates."""
        key = ("n", side)
        if key not in self._cache:
            rn = self.ref_normal(side)
            if self.tdim == 1:
                J = self.J(side)
                d = [J[i][0] * rn[0] for i in range(self.gdim)]
            else:
                K = self.K(side)
                d = []
                for i in range(self.gdim):
                    r = None
                    for j in range(self.tdim):
                        t_ = K[j][i] * rn[j]
                        r = t_ if r is None else r + t_
                    d.append(r)
            n2 = None
            for x_ in d:
                n2 = x_ * x_ if n2 is None else n2 + x_ * x_
            inv = ring.inv(ring.sqrtval(n2))
            self._cache[key] = [x_ * inv for x_ in d]
        return self._cache[key]

    def cell_normal(self, side=None):
        J = self.J(side)
        if self.tdim == 2 and self.gdim == 3:
            a = [J[i][0] for i in range(3)]
            b = [J[i][1] for i in range(3)]
            d = [a[1] * b[2] - a[2] * b[1], a[2] * b[0] - a[0] * b[2], a[0] * b[1] - a[1] * b[0]]
        elif self.tdim == 1 and self.gdim == 2:
            d = [-J[1][0], J[0][0]]
        else:
            raise DenotationError("cell normal undefined")
        n2 = None
        for x_ in d:
            n2 = x_ * x_ if n2 is None else n2 + x_ * x_
        inv = ring.inv(ring.sqrtval(n2)) * self.orientation(side)
        return [x_ * inv for x_ in d]

    def vertex_coords(self, side=None):
        """Physical vertices: v_0 = x0, v_k = x0 + J[:, k-1]."""
        if self.mode == "vertices":
            return self.vertices(side)
        J, x0 = self.J(side), self.x0(side)
        V = [list(x0)]
        for k in range(self.tdim):
            V.append([x0[c] + J[c][k] for c in range(self.gdim)])
        return V

    def _dX(self, comp, derivs, side):
        if len(derivs) > 1:
            return self.zero()
        kind, i = derivs[0]
        if kind == "X":
            return self.const(1 if i == comp[0] else 0)
        return self.K(side)[comp[0]][i]

    # ---- terminals
    def symbol(self, t, comp, derivs, side):
        ov = self.arg_override.get(t)
        if ov is not None:
            return ov(comp, derivs, side)
        if isinstance(t, C.SpatialCoordinate):
            if not derivs:
                return self.x(side)[comp[0]]
            if len(derivs) > 1:
                return self.zero()
            kind, i = derivs[0]
            if kind == "x":
                return self.const(1 if i == comp[0] else 0)
            return self.J(side)[comp[0]][i]
        if isinstance(t, C.GeometricQuantity):
            return self.geometric(t, comp, derivs, side)
        if isinstance(t, C.Constant):
            return super().symbol(t, comp, derivs, side)
        if isinstance(t, C.ReferenceValue):
            (f,) = t.ufl_operands
            return self.ref_symbol(f, comp, derivs, side)
        if isinstance(t, (C.Coefficient, C.Argument)):
            if not self.reference_fields:
                # physical primitives; reference derivatives are not available
                if any(k == "X" for k, _ in derivs):
                    return self._phys_field_refderiv(t, comp, derivs, side)
                return super().symbol(t, comp, derivs, side)
            return self.pushforward(t, comp, derivs, side)
        return super().symbol(t, comp, derivs, side)

    def _phys_field_refderiv(self, t, comp, derivs, side):
        # d/dX_j = sum_i J_ij d/dx_i (affine)
        J = self.J(side)
        xs = tuple(d for d in derivs if d[0] == "x")
        Xs = [d for d in derivs if d[0] == "X"]
        r = None
        for ii in itertools.product(range(self.gdim), repeat=len(Xs)):
            coef = None
            for (_, j), i in zip(Xs, ii):
                coef = J[i][j] if coef is None else coef * J[i][j]
            term = coef * Env.symbol(self, t, comp, tuple(sorted(xs + tuple(("x", i) for i in ii))), side)
            r = term if r is None else r + term
        return r

    # ---- reference-frame primitives and the declared push-forward
    def ref_symbol(self, f, rcomp, derivs, side):
        """Symbol for D_derivs of reference component rcomp of f (derivs must be reference)."""
        xs = [d for d in derivs if d[0] == "x"]
        if xs:
            # physical derivative of a reference value: d/dx_i = sum_j K_ji d/dX_j
            K = self.K(side)
            Xs = tuple(d for d in derivs if d[0] == "X")
            r = None
            for jj in itertools.product(range(self.tdim), repeat=len(xs)):
                coef = None
                for (_, i), j in zip(xs, jj):
                    coef = K[j][i] if coef is None else coef * K[j][i]
                term = coef * self.ref_symbol(f, rcomp, tuple(sorted(Xs + tuple(("X", j) for j in jj))), side)
                r = term if r is None else r + term
            return r
        name = f"r{self.tname(f)}{list(rcomp)}{self.dname(derivs)}{self._side(side)}".replace(" ", "")
        return self.base(name)

    def pushforward(self, f, comp, derivs, side):
        """Physical value component `comp` (and its derivatives) of a form argument from
        its reference components, by the element's declared push-forward."""
        el = f.ufl_element()
        terms = self.pf_terms(el, comp, side)
        r = None
        for coef, rcomp in terms:
            t = coef * self.ref_symbol(f, rcomp, derivs, side)
            r = t if r is None else r + t
        return r if r is not None else self.zero()

    def pf_terms(self, el, comp, side, base=None):
        """[(coefficient, reference component address)] with physical[comp] = sum coef * ref.
        base=None: `el` is the top-level element, addresses are multi-indices in its own
        reference shape.  base=int: `el` sits at that flat offset inside enclosing mixed /
        symmetric elements, whose reference shape is flat."""
        import ufl.pullback as pb

        p = el.pullback
        rs = tuple(el.reference_value_shape)
        t = self.tdim

        def addr(multi):
            if base is None:
                return tuple(multi)
            flat = 0
            for m, s_ in zip(multi, rs):
                flat = flat * s_ + m
            return (base + flat,)

        def unflat(k, shape):
            out = []
            for s_ in reversed(shape):
                out.append(k % s_)
                k //= s_
            return tuple(reversed(out))

        if isinstance(p, pb.SymmetricPullback):
            r = len(p._block_shape) if hasattr(p, "_block_shape") else len(next(iter(p._symmetry)))
            block, sub_comp = tuple(comp[:r]), tuple(comp[r:])
            k = p._symmetry[block]
            off = base or 0
            for s_ in el.sub_elements[:k]:
                off += s_.reference_value_size
            return self.pf_terms(el.sub_elements[k], sub_comp, side, off)
        if isinstance(p, pb.MixedPullback):
            (flat,) = comp
            off_p, off_r = 0, (base or 0)
            for sub in el.sub_elements:
                pshape = self.physical_shape(sub)
                psize = 1
                for s_ in pshape:
                    psize *= s_
                if flat < off_p + psize:
                    return self.pf_terms(sub, unflat(flat - off_p, pshape), side, off_r)
                off_p += psize
                off_r += sub.reference_value_size
            raise DenotationError("mixed component out of range")
        if isinstance(p, pb.IdentityPullback):
            return [(self.const(1), addr(comp))]
        J = self.J(side)
        if isinstance(p, pb.ContravariantPiola):
            lead, i = tuple(comp[:-1]), comp[-1]
            idet = ring.inv(self.detJ(side))
            return [(J[i][j] * idet, addr(lead + (j,))) for j in range(t)]
        if isinstance(p, pb.CovariantPiola):
            K = self.K(side)
            lead, i = tuple(comp[:-1]), comp[-1]
            return [(K[j][i], addr(lead + (j,))) for j in range(t)]
        if isinstance(p, pb.L2Piola):
            return [(ring.inv(self.detJ(side)), addr(comp))]
        if isinstance(p, pb.DoubleCovariantPiola):
            K = self.K(side)
            lead, (i, j) = tuple(comp[:-2]), comp[-2:]
            return [(K[m][i] * K[n][j], addr(lead + (m, n))) for m in range(t) for n in range(t)]
        if isinstance(p, pb.DoubleContravariantPiola):
            lead, (i, j) = tuple(comp[:-2]), comp[-2:]
            d = self.detJ(side)
            idet2 = ring.inv(d * d)
            return [(J[i][m] * J[j][n] * idet2, addr(lead + (m, n))) for m in range(t) for n in range(t)]
        if isinstance(p, pb.CovariantContravariantPiola):
            K = self.K(side)
            lead, (i, j) = tuple(comp[:-2]), comp[-2:]
            idet = ring.inv(self.detJ(side))
            return [(K[m][i] * J[j][n] * idet, addr(lead + (m, n))) for m in range(t) for n in range(t)]
        raise DenotationError(f"push-forward of {type(p).__name__}")

    def physical_shape(self, el):
        """Physical value shape by the definition of each push-forward (independent of
        AbstractPullback.physical_value_shape)."""
        import ufl.pullback as pb

        p = el.pullback
        rs = tuple(el.reference_value_shape)
        g = self.gdim
        if isinstance(p, pb.SymmetricPullback):
            keys = list(p._symmetry.keys())
            block = tuple(max(k[a_] for k in keys) + 1 for a_ in range(len(keys[0])))
            return block + self.physical_shape(el.sub_elements[0])
        if isinstance(p, pb.MixedPullback):
            n = 0
            for sub in el.sub_elements:
                m = 1
                for s_ in self.physical_shape(sub):
                    m *= s_
                n += m
            return (n,)
        if isinstance(p, (pb.ContravariantPiola, pb.CovariantPiola)):
            return rs[:-1] + (g,)
        if isinstance(p, (pb.DoubleCovariantPiola, pb.DoubleContravariantPiola,
                          pb.CovariantContravariantPiola)):
            return rs[:-2] + (g, g)
        return rs
