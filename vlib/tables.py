"""E3: order/consistency axioms over relation tables.

The tables are produced on every run by calling the *real* operators on every
tuple of a finite carrier; the axioms are asserted over symbolic indices into the
tables and z3 either proves them (unsat) or returns indices, which are replayed by
calling the real operators on the corresponding objects."""

from __future__ import annotations

import itertools
import time

from . import solve


class Tables:
    def __init__(self, carrier, names=None):
        self.carrier = list(carrier)
        self.n = len(self.carrier)
        self.names = names or [repr(c) for c in self.carrier]
        self.rel = {}    # name -> dict[(i,j)] -> True/False/None(raised)
        self.fun = {}    # name -> dict[(i,)] or [(i,k)] -> int
        self.calls = 0

    def relation(self, name, fn):
        t = {}
        for i, j in itertools.product(range(self.n), repeat=2):
            try:
                v = fn(self.carrier[i], self.carrier[j])
                v = None if v is NotImplemented else bool(v)
            except Exception:
                v = None
            self.calls += 1
            t[(i, j)] = v
        self.rel[name] = t

    def function(self, name, fn, extra=(None,)):
        t = {}
        for i in range(self.n):
            for k in extra:
                try:
                    v = fn(self.carrier[i]) if k is None else fn(self.carrier[i], k)
                    v = int(v)
                except Exception:
                    v = -999
                self.calls += 1
                t[(i, k)] = v
        self.fun[name] = (t, extra)

    # -- SMT-LIB
    @staticmethod
    def lit(n):
        return str(n) if n >= 0 else f"(- {-n})"

    def preamble(self):
        L = []
        for name, t in self.rel.items():
            true_pairs = [f"(and (= i {i}) (= j {j}))" for (i, j), v in t.items() if v is True]
            err_pairs = [f"(and (= i {i}) (= j {j}))" for (i, j), v in t.items() if v is None]
            L.append(f"(define-fun {name} ((i Int) (j Int)) Bool (or false {' '.join(true_pairs)}))")
            L.append(f"(define-fun {name}_err ((i Int) (j Int)) Bool (or false {' '.join(err_pairs)}))")
        for name, (t, extra) in self.fun.items():
            if extra == (None,):
                body = self.lit(-999)
                for (i, _), v in t.items():
                    body = f"(ite (= i {i}) {self.lit(v)} {body})"
                L.append(f"(define-fun {name} ((i Int)) Int {body})")
            else:
                body = self.lit(-999)
                for (i, k), v in t.items():
                    body = f"(ite (and (= i {i}) (= k {self.lit(k)})) {self.lit(v)} {body})"
                L.append(f"(define-fun {name} ((i Int) (k Int)) Int {body})")
        return "\n".join(L)

    def check(self, axiom_name, nvars, negated_axiom, timeout=60, extra_decls="", ranges=None):
        """negated_axiom: SMT-LIB Bool over a, b, c (indices).  Returns (status, witness indices)."""
        vars_ = ["a", "b", "c", "d"][:nvars]
        decl = "\n".join(f"(declare-const {v} Int)\n(assert (and (<= 0 {v}) (< {v} {self.n})))" for v in vars_)
        script = self.preamble() + "\n" + extra_decls + "\n" + decl + f"\n(assert {negated_axiom})\n(check-sat)\n"
        v, out = solve.run_z3(script, timeout, want_model=True)
        if v == "unsat":
            return "proved", None
        if v == "sat":
            env = solve.parse_model(out)
            try:
                return "sat", [int(env[x]) for x in vars_]
            except Exception:
                return "unknown", None
        return "unknown", None
