"""Discharge obligations with z3 (binary, hard kill), radical rewriting,
random-point candidate search and numeric replay."""

from __future__ import annotations

import cmath
import math
import os
import random
import re
import subprocess
import tempfile
import time
from fractions import Fraction

from . import ring
from . import terms as tm
from .ring import ST, Cx, Dual, Frac

Z3 = os.environ.get("VERIF_Z3", "z3-new")
# true polynomial identities are decided in milliseconds; when one is not, the staged
# reasoning (rewriting, side facts) is the way forward, so stage 1 gets a short budget
STAGE1_TIMEOUT = float(os.environ.get("VERIF_STAGE1_TIMEOUT", "8"))
STATS = {"queries": 0, "solver_s": 0.0, "unsat": 0, "sat": 0, "unknown": 0}


def reset_stats():
    for k in STATS:
        STATS[k] = 0 if k != "solver_s" else 0.0


class _Session:
    """One long-lived `z3 -in` process; (reset) between queries; hard kill on
    overrun (z3's own soft timeout does not always stop nlsat)."""

    def __init__(self, solver):
        self.solver = solver
        self.p = None

    def _start(self):
        self.p = subprocess.Popen(
            [self.solver, "-in"], stdin=subprocess.PIPE, stdout=subprocess.PIPE,
            stderr=subprocess.STDOUT, bufsize=0,
        )

    def kill(self):
        if self.p is not None:
            try:
                self.p.kill()
                self.p.wait(timeout=5)
            except Exception:
                pass
            self.p = None

    def query(self, script: str, timeout_s: float):
        import select

        if self.p is None or self.p.poll() is not None:
            self._start()
        marker = "<<vf-done>>"
        msg = (
            f"(reset)\n(set-option :timeout {int(timeout_s * 1000)})\n"
            + script
            + f'\n(echo "{marker}")\n'
        )
        try:
            self.p.stdin.write(msg.encode())
            self.p.stdin.flush()
        except (BrokenPipeError, OSError):
            self.kill()
            return "unknown\n(broken-pipe)"
        buf = b""
        deadline = time.time() + timeout_s + 3
        fd = self.p.stdout.fileno()
        while True:
            rem = deadline - time.time()
            if rem <= 0:
                self.kill()
                return "unknown\n(timeout-kill)"
            r, _, _ = select.select([fd], [], [], rem)
            if not r:
                continue
            chunk = os.read(fd, 65536)
            if not chunk:
                self.kill()
                return "unknown\n(solver-died) " + buf.decode(errors="replace")
            buf += chunk
            if marker.encode() in buf:
                return buf.decode(errors="replace").replace(marker, "")


_SESSIONS = {}


def close_sessions():
    for s in _SESSIONS.values():
        s.kill()
    _SESSIONS.clear()


import atexit

atexit.register(close_sessions)


def run_z3(script: str, timeout_s: float = 20, want_model=False, solver=None):
    """Returns (verdict, raw output).  verdict in sat/unsat/unknown; any `(error`
    in the output makes the verdict unknown (inconclusive)."""
    solver = solver or Z3
    if want_model:
        script = script.replace("(check-sat)", "(check-sat)\n(get-model)")
    t0 = time.time()
    key = (os.getpid(), solver)
    ses = _SESSIONS.get(key)
    if ses is None:
        ses = _SESSIONS[key] = _Session(solver)
    out = ses.query(script, timeout_s)
    dt = time.time() - t0
    STATS["queries"] += 1
    STATS["solver_s"] += dt
    first = out.strip().split("\n", 1)[0].strip() if out.strip() else "unknown"
    if first not in ("sat", "unsat"):
        first = "unknown"
    else:
        body = out
        if first == "unsat" and want_model:
            # (get-model) after unsat reports "model is not available": not an encoding error
            body = re.sub(r'\(error "line \d+ column \d+: model is not available"\)', "", out)
        if "(error" in body:
            first = "unknown"
    STATS[first] += 1
    return first, out


_MODEL_RE = re.compile(r"\(define-fun\s+(\|[^|]*\||\S+)\s+\(\)\s+(Real|Bool|Int)\s+(.*?)\)\s*(?=\(define-fun|\)\s*$)", re.S)


def _parse_num(s: str):
    s = s.strip()
    toks = s.replace("(", " ( ").replace(")", " ) ").split()
    pos = [0]

    def parse():
        t = toks[pos[0]]
        pos[0] += 1
        if t == "(":
            op = toks[pos[0]]
            pos[0] += 1
            args = []
            while toks[pos[0]] != ")":
                args.append(parse())
            pos[0] += 1
            if op == "-":
                return -args[0] if len(args) == 1 else args[0] - args[1]
            if op == "/":
                return args[0] / args[1]
            if op == "+":
                return sum(args)
            if op == "*":
                r = Fraction(1)
                for a in args:
                    r *= a
                return r
            raise ValueError(op)
        if t in ("true", "false"):
            return t == "true"
        return Fraction(t)

    return parse()


def parse_model(out: str):
    env = {}
    for m in _MODEL_RE.finditer(out):
        name = m.group(1).strip("|")
        try:
            env[name] = _parse_num(m.group(3))
        except Exception:
            env[name] = None  # algebraic number etc.
    return env


# --------------------------------------------------------------------------
# numeric replay
# --------------------------------------------------------------------------

UF_FLOAT = {
    "uf_exp": math.exp,
    "uf_ln": math.log,
    "uf_sin": math.sin,
    "uf_cos": math.cos,
    "uf_tan": math.tan,
    "uf_cosh": math.cosh,
    "uf_sinh": math.sinh,
    "uf_tanh": math.tanh,
    "uf_acos": math.acos,
    "uf_asin": math.asin,
    "uf_atan": math.atan,
    "uf_erf": math.erf,
    "uf_atan2": math.atan2,
    "uf_pow": math.pow,
}
for _n in ("exp", "ln", "sin", "cos", "tan", "cosh", "sinh", "tanh", "acos", "asin", "atan", "sqrt"):
    _f = getattr(cmath, "log" if _n == "ln" else _n)
    UF_FLOAT["uf_re_" + _n] = (lambda f: lambda a, b: f(complex(a, b)).real)(_f)
    UF_FLOAT["uf_im_" + _n] = (lambda f: lambda a, b: f(complex(a, b)).imag)(_f)


def complete_env(env: dict, roots, exact=True, fill=None):
    """Fill derived variables (radicals, quotient variables, named constants)
    from base variables.  Returns env or None if outside the domain."""
    env = dict(env)
    env.setdefault("const!two_over_sqrt_pi", 2 / math.sqrt(math.pi))
    need = [n for n, _ in tm.variables(roots)]
    # derived symbols may be defined through further derived symbols: close the set
    frontier = list(need)
    while frontier:
        defs = []
        for n in frontier:
            if n.startswith("rad!") and n in ST.rad_by_name:
                defs.append(ST.rad_by_name[n][1])
            elif n.startswith("q!"):
                for key, q in ST.quot.items():
                    if q.args[0] == n:
                        defs += [t for t in tm._TABLE.values() if t.id == key[0]][:1] + [ring.den_term(dict(key[1]))]
        frontier = [n for n, _ in tm.variables(defs) if n not in need] if defs else []
        need += frontier
    if fill is not None:
        for n in need:
            if n not in env and not n.startswith(("rad!", "q!", "const!")):
                env[n] = fill(n)
    # iterate: radicals / quotients may depend on each other (acyclic)
    pending = [n for n in need if n not in env or env[n] is None]
    for _ in range(len(pending) + 2):
        prog = False
        for n in list(pending):
            if n.startswith("rad!"):
                sym, radt = ST.rad_by_name[n]
                vs = [v for v, _ in tm.variables([radt])]
                if all(v in env and env[v] is not None for v in vs):
                    val = tm.evaluate([radt], env, UF_FLOAT)[0]
                    if val < 0:
                        return None
                    r = tm.isqrt_fraction(Fraction(val)) if isinstance(val, (int, Fraction)) else None
                    env[n] = r if r is not None else math.sqrt(float(val))
                    pending.remove(n)
                    prog = True
            elif n.startswith("q!"):
                for key, q in ST.quot.items():
                    if q.args[0] == n:
                        nid, ditems = key
                        num = [t for t in tm._TABLE.values() if t.id == nid][0]
                        den = ring.den_term(dict(ditems))
                        vs = [v for v, _ in tm.variables([num, den])]
                        if all(v in env and env[v] is not None for v in vs):
                            a, b = tm.evaluate([num, den], env, UF_FLOAT)
                            if b == 0:
                                return None
                            env[n] = a / b
                            pending.remove(n)
                            prog = True
        if not prog:
            break
    return env if not pending else None


def random_env(roots, rng, scale=3):
    env = {}
    for n, sort in tm.variables(roots):
        if n.startswith(("rad!", "q!", "const!")):
            continue
        if sort == "Bool":
            env[n] = rng.random() < 0.5
        elif n.startswith("co") and (len(n) == 2 or n[2] == "@"):
            env[n] = Fraction(rng.choice((-1, 1)))  # CellOrientation
        else:
            env[n] = Fraction(rng.randint(-scale * 4, scale * 4), rng.randint(1, 4))
    return env


def differs(a, b, tol=1e-7):
    if isinstance(a, (int, Fraction)) and isinstance(b, (int, Fraction)):
        return a != b
    a, b = float(a), float(b)
    if math.isnan(a) or math.isnan(b) or math.isinf(a) or math.isinf(b):
        return False
    return abs(a - b) > tol * (1 + abs(a) + abs(b))


# --------------------------------------------------------------------------
# radical rewriting on the polynomial normal form
# --------------------------------------------------------------------------


def _substitute_var(p, vid, rp):
    new = tm.Poly()
    for m, c in p.d.items():
        e = dict(m).get(vid, 0)
        if e:
            rest = tuple((v, k) for v, k in m if v != vid)
            new = new + (tm.Poly({rest: c}) * (rp ** e))
        else:
            new = new + tm.Poly({m: c})
    return new


def rewrite_radicals(t: tm.T, equations=()):
    """Normal form of t with every radical symbol reduced to degree <= 1 using
    sym^2 -> radicand, and with oriented lemma equations `app = rhs` (app an opaque
    uninterpreted application) applied as app -> rhs.  Returns a Poly or None."""
    p = tm.to_poly(t)
    if p is None:
        return None
    try:
        for _ in range(8):
            hit = False
            for e in equations:
                if e.op != "eq":
                    continue
                lhs, rhs = e.args
                if lhs.op != "uf":
                    continue
                if p.degree_in(lhs.id) >= 1:
                    rp = tm.to_poly(rhs)
                    if rp is None or lhs.id in rp.vars():
                        continue
                    p = _substitute_var(p, lhs.id, rp)
                    hit = True
            if not hit:
                break
    except tm.PolyTooBig:
        return None
    return ring.reduce_squares(p)


# --------------------------------------------------------------------------
# the equality pipeline
# --------------------------------------------------------------------------


class Result:
    def __init__(self, status, stage=None, witness=None, detail="", query_s=0.0, size=0):
        self.status = status  # proved / violated / inconclusive
        self.stage = stage
        self.witness = witness
        self.detail = detail
        self.query_s = query_s
        self.size = size

    def __repr__(self):
        return f"Result({self.status}, stage={self.stage}, {self.detail})"


def _flatten_pairs(a, b):
    """Reduce equality of ring values to equalities of Frac pairs."""
    if isinstance(a, Dual) or isinstance(b, Dual):
        a, b = ring._same_depth(a, b)
        return _flatten_pairs(a.a, b.a) + _flatten_pairs(a.b, b.b)
    if isinstance(a, Cx) or isinstance(b, Cx):
        a, b = Cx.of(a), Cx.of(b)
        return [(a.re, b.re), (a.im, b.im)]
    return [(Frac.of(a), Frac.of(b))]


def side_assumptions(extra=()):
    A = list(ST.facts) + list(extra)
    for t in ST.nonzero:
        A.append(tm.ne(t, tm.const(0)))
    A.extend(ST.domain)
    return A


HINTS = True
HINTED_TIMEOUT = 20


def search_counterexample(diff, assumptions=(), cand_env=None, seed=0, n_random=40):
    """Evaluate `diff` at the solver's model (if any) and at random exact-rational points that satisfy the
    assumptions and side facts; returns (kind, witness) for a robustly non-zero value, else None."""
    rng = random.Random(seed)
    tries = []
    if cand_env:
        tries.append(("solver-model", {k: v for k, v in cand_env.items() if v is not None}))
    for i in range(n_random):
        tries.append(("random-point", random_env([diff] + list(assumptions), rng, scale=1 + i % 4)))
    for kind, env0 in tries:
        base = {k: v for k, v in env0.items() if not k.startswith(("rad!", "q!"))}
        for n, sort in tm.variables([diff] + list(assumptions) + list(ST.nonzero)):
            if n not in base and not n.startswith(("rad!", "q!", "const!")):
                base[n] = Fraction(rng.randint(-5, 5), rng.randint(1, 3)) if sort == "Real" else False
        env = complete_env(
            base, [diff] + list(assumptions) + list(ST.facts) + list(ST.nonzero)
        )
        if env is None:
            continue
        try:
            ok = all(tm.evaluate(list(assumptions), env, UF_FLOAT)) if assumptions else True
            nz = tm.evaluate(list(ST.nonzero), env, UF_FLOAT) if ST.nonzero else []
            if not ok or any(x == 0 for x in nz):
                continue
            val = tm.evaluate([diff], env, UF_FLOAT)[0]
            parts = diff.args if diff.op == "add" else (diff,)
            scale = sum(abs(float(v)) for v in tm.evaluate(list(parts), env, UF_FLOAT))
        except (ValueError, ZeroDivisionError, OverflowError, KeyError):
            continue
        exact = isinstance(val, (int, Fraction))
        if (exact and val != 0) or (not exact and abs(float(val)) > 1e-6 * (scale + 1e-300)
                                    and math.isfinite(float(val)) and math.isfinite(scale)):
            wit = {k: (str(v) if isinstance(v, Fraction) else v) for k, v in env.items()}
            return kind, {"env": wit, "diff_value": str(val)}
    return None


def prove_zero(diff: tm.T, assumptions=(), timeout=20, lemma_instances=(), seed=0, label=""):
    """Decide `assumptions => diff == 0`.  Returns Result."""
    t0 = time.time()
    sz = tm.size([diff])
    if diff.op == "c":
        # constant after construction-time folding: still ask the solver (trivial)
        pass
    goal = tm.ne(diff, tm.const(0))
    rewritten_first = False
    if ST.squares or lemma_instances:
        # rewriting by recorded squares / oriented lemma equations first: when radicals or
        # uninterpreted applications are involved the plain identity rarely holds syntactically
        p = rewrite_radicals(diff, lemma_instances)
        rewritten_first = True
        if p is not None:
            rt = tm.poly_to_term(p)
            v3, _ = run_z3(tm.to_smt2([tm.ne(rt, tm.const(0))],
                                      comments=[label, "stage 3: radicals/lemma equations rewritten"]), timeout)
            if v3 == "unsat":
                return Result("proved", 3, query_s=time.time() - t0, size=sz)
    # stage 1: assumption-free identity
    v, out = run_z3(tm.to_smt2([goal], comments=[label, "stage 1: identity"]), min(timeout, STAGE1_TIMEOUT))
    if v == "unsat":
        return Result("proved", 1, query_s=time.time() - t0, size=sz)
    cand_env = None
    have_side = bool(ST.facts or ST.domain or assumptions or lemma_instances or tm.ufs([diff]))
    if v == "sat" and not have_side:
        v2, out = run_z3(tm.to_smt2([goal]), timeout, want_model=True)
        cand_env = parse_model(out) if v2 == "sat" else None
    else:
        A = side_assumptions(list(assumptions) + list(lemma_instances))
        # stage 3: rewrite even radical powers / oriented lemma equations in the polynomial
        # normal form, then ask the solver about the rewritten term
        v2 = "unknown"
        if (ST.squares or lemma_instances) and not rewritten_first:
            p = rewrite_radicals(diff, lemma_instances)
            if p is not None:
                rt = tm.poly_to_term(p)
                g3 = tm.ne(rt, tm.const(0))
                v3, _ = run_z3(
                    tm.to_smt2([g3], comments=[label, "stage 3: radicals/lemma equations rewritten"]),
                    timeout,
                )
                if v3 == "unsat":
                    return Result("proved", 3, query_s=time.time() - t0, size=sz)
        # stage 2: with definitional facts, non-zero denominators, domains, lemmas
        v2, out2 = run_z3(
            tm.to_smt2(A + [goal], comments=[label, "stage 2: with side facts"]), timeout
        )
        if v2 == "unsat":
            return Result("proved", 2, query_s=time.time() - t0, size=sz)
        if v2 == "sat":
            _, outm = run_z3(tm.to_smt2(A + [goal]), timeout, want_model=True)
            cand_env = parse_model(outm)
    # candidate search: solver model first, then random exact points
    hit = search_counterexample(diff, assumptions, cand_env, seed, 40)
    if hit is not None:
        kind, wit = hit
        return Result("violated", kind, witness=wit, query_s=time.time() - t0, size=sz)
    return Result("inconclusive", None, detail=f"z3:{v}", query_s=time.time() - t0, size=sz)


def prove_equal(a, b, assumptions=(), timeout=20, lemma_instances=(), seed=0, label=""):
    """Equality of two ring values; returns list[Result] (one per real scalar pair)."""
    out = []
    for x, y in _flatten_pairs(a, b):
        out.append(
            prove_zero(x.diff_num(y), assumptions, timeout, lemma_instances, seed, label)
        )
    return out


def discharge_lemmas(timeout=60):
    """The identifications the polynomial normaliser made, decided by the solver.
    Returns (n_ok, n_bad)."""
    ok = bad = 0
    seen = set()
    for l in ST.sq_lemmas:
        if l.id in seen or l.op == "true":
            continue
        seen.add(l.id)
        # p == p2 where p2 is p rewritten with recorded squares (s*s == r).  First as an implication
        # from the facts (short budget: nlsat rarely finishes on many radicals); otherwise the same
        # argument as stage 3: the rewritten difference is handed to the solver as an identity.
        v, _ = run_z3(tm.to_smt2(list(ST.facts) + [tm.not_(l)],
                                 comments=["radicand identification using recorded squares"]), min(timeout, 10))
        if v != "unsat" and l.op == "eq":
            pd = ring.reduce_squares(tm.to_poly(tm.sub(l.args[0], l.args[1])))
            if pd is not None:
                v, _ = run_z3(tm.to_smt2([tm.ne(tm.poly_to_term(pd), tm.const(0))],
                                         comments=["radicand identification, squares rewritten"]), timeout)
                if v == "unsat":
                    STATS["lemmas_by_rewriting"] = STATS.get("lemmas_by_rewriting", 0) + 1
        if v == "unsat":
            ok += 1
        else:
            bad += 1
    for l in ST.lemmas:
        if l.id in seen or l.op == "true":
            continue
        seen.add(l.id)
        v, _ = run_z3(tm.to_smt2([tm.not_(l)], comments=["normaliser identification lemma"]), timeout)
        if v == "unsat":
            ok += 1
        else:
            bad += 1
    return ok, bad


def prove_all_zero(diffs, assumptions=(), timeout=20, lemma_instances=(), seed=0, label=""):
    """All terms in `diffs` are zero.  One disjunctive query first; falls back to
    per-term queries for localisation / staged reasoning.  Returns Result with
    .index of the failing term if violated."""
    t0 = time.time()
    diffs = list(diffs)
    nz = [d for d in diffs if not (d.op == "c" and d.args[0] == 0)]
    sz = tm.size(diffs)
    if not nz:
        # every difference folded to the literal 0 at construction; still one solver call
        v, _ = run_z3(tm.to_smt2([tm.ne(tm.const(0), tm.const(0))] if False else
                                 [tm._mk("not", (tm._mk("eq", (tm.const(0), tm.const(0)), "Bool"),), "Bool")],
                                 comments=[label, "all differences are syntactically 0"]), timeout)
        if v == "unsat":
            return Result("proved", 0, query_s=time.time() - t0, size=sz)
        return Result("inconclusive", None, detail="trivial query not unsat")
    # A candidate point found by cheap random evaluation does not decide anything, but it bounds the time spent
    # on proof attempts that are then unlikely to succeed (a proof still pre-empts the candidate: float noise
    # cannot turn a provable identity into a violation).
    hinted = False
    if HINTS:
        try:
            hinted = any(search_counterexample(d, assumptions, None, seed + 7, 2) is not None for d in nz[:8])
        except Exception:  # noqa: BLE001
            hinted = False
    if hinted:
        timeout = min(timeout, HINTED_TIMEOUT)
    if ST.squares or lemma_instances:
        rts = []
        for d in nz:
            p = rewrite_radicals(d, lemma_instances)
            if p is None:
                rts = None
                break
            rts.append(tm.poly_to_term(p))
        if rts is not None:
            g3 = tm.or_(*[tm.ne(x, tm.const(0)) for x in rts])
            v3, _ = run_z3(tm.to_smt2([g3], comments=[label, "stage 3 (disjunction): radicals/lemma equations "
                                                      "rewritten"]), timeout) if g3.op != "false" else ("unsat", "")
            if g3.op == "false":
                v3, _ = run_z3(tm.to_smt2([tm._mk("not", (tm._mk("eq", (tm.const(0), tm.const(0)), "Bool"),), "Bool")]), timeout)
            if v3 == "unsat":
                return Result("proved", 3, query_s=time.time() - t0, size=sz)
    goal = tm.or_(*[tm.ne(d, tm.const(0)) for d in nz])
    v, _ = run_z3(tm.to_smt2([goal], comments=[label, "stage 1: identity (disjunction)"]),
                  min(timeout, STAGE1_TIMEOUT))
    if v == "unsat":
        return Result("proved", 1, query_s=time.time() - t0, size=sz)
    if v == "unknown" and not (ST.squares or lemma_instances):
        # the solver ran out of its (short) identity budget: hand it the differences in expanded polynomial
        # normal form instead (own exact sparse arithmetic, vlib/terms.py; the solver decides the expanded terms)
        ps = [tm.to_poly(d) for d in nz]
        if all(p_ is not None for p_ in ps):
            g1 = tm.or_(*[tm.ne(tm.poly_to_term(p_), tm.const(0)) for p_ in ps])
            if g1.op == "false":
                v1, _ = run_z3(tm.to_smt2([tm._mk("not", (tm._mk("eq", (tm.const(0), tm.const(0)), "Bool"),), "Bool")],
                                          comments=[label, "stage 1b: every difference expands to the zero polynomial"]), timeout)
            else:
                v1, _ = run_z3(tm.to_smt2([g1], comments=[label, "stage 1b: expanded polynomial normal form"]), timeout)
            if v1 == "unsat":
                return Result("proved", "1b", query_s=time.time() - t0, size=sz)
    have_side = bool(ST.facts or ST.domain or assumptions or lemma_instances or ST.nonzero)
    if have_side and not (ST.squares or lemma_instances):
        A = side_assumptions(list(assumptions) + list(lemma_instances))
        v2, _ = run_z3(tm.to_smt2(A + [goal], comments=[label, "stage 2 (disjunction)"]), timeout)
        if v2 == "unsat":
            return Result("proved", 2, query_s=time.time() - t0, size=sz)
    worst = None
    stage = 1
    for i, d in enumerate(diffs):
        if d.op == "c" and d.args[0] == 0:
            continue
        r = prove_zero(d, assumptions, timeout, lemma_instances, seed, label)
        if r.status == "violated":
            r.index = i
            r.query_s = time.time() - t0
            r.size = sz
            return r
        if r.status == "inconclusive":
            worst = r
            worst.index = i
        else:
            stage = max(stage, r.stage or 0)
    if worst is not None:
        worst.query_s = time.time() - t0
        return worst
    return Result("proved", stage, query_s=time.time() - t0, size=sz)


def flatten_diffs(pairs):
    """pairs of ring values -> list of difference numerator terms."""
    out = []
    for a, b in pairs:
        for x, y in _flatten_pairs(a, b):
            out.append(x.diff_num(y))
    return out


def prove_implied(cond: tm.T, assumptions=(), timeout=30, label="", seed=0):
    """Decide `side facts /\\ assumptions => cond` (cond a Bool term).  A counter-model is
    replayed numerically before it is reported."""
    t0 = time.time()
    if cond.op == "true":
        v, _ = run_z3(tm.to_smt2([tm._mk("not", (tm._mk("eq", (tm.const(0), tm.const(0)), "Bool"),), "Bool")]), timeout)
        return Result("proved" if v == "unsat" else "inconclusive", 0, query_s=time.time() - t0)
    A = side_assumptions(list(assumptions))
    v, out = run_z3(tm.to_smt2(A + [tm.not_(cond)], comments=[label, "implication"]), timeout)
    if v == "unsat":
        return Result("proved", 2, query_s=time.time() - t0, size=tm.size([cond]))
    rng = random.Random(seed)
    tries = []
    if v == "sat":
        _, outm = run_z3(tm.to_smt2(A + [tm.not_(cond)]), timeout, want_model=True)
        tries.append(("solver-model", {k: x for k, x in parse_model(outm).items() if x is not None}))
    roots = [cond] + list(assumptions) + list(ST.nonzero) + list(ST.facts) + list(ST.domain)
    for i in range(60):
        tries.append(("random-point", random_env(roots, rng, scale=1 + i % 4)))
    for kind, env0 in tries:
        base = {k: x for k, x in env0.items() if not k.startswith(("rad!", "q!"))}
        for n, sort in tm.variables(roots):
            if n not in base and not n.startswith(("rad!", "q!", "const!")):
                base[n] = Fraction(rng.randint(-5, 5), rng.randint(1, 3)) if sort == "Real" else False
        env = complete_env(base, roots)
        if env is None:
            continue
        try:
            if assumptions and not all(tm.evaluate(list(assumptions), env, UF_FLOAT)):
                continue
            if ST.nonzero and any(x == 0 for x in tm.evaluate(list(ST.nonzero), env, UF_FLOAT)):
                continue
            if ST.domain and not all(tm.evaluate(list(ST.domain), env, UF_FLOAT)):
                continue
            # facts that are not definitional for derived symbols (e.g. co^2 = 1) must hold too
            if ST.facts and not all(_approx_true(f, env) for f in ST.facts):
                continue
            ok = tm.evaluate([cond], env, UF_FLOAT)[0]
        except (ValueError, ZeroDivisionError, OverflowError, KeyError):
            continue
        if not ok and _robustly_false(cond, env):
            wit = {k: (str(x) if isinstance(x, Fraction) else x) for k, x in env.items()}
            return Result("violated", kind, witness={"env": wit}, query_s=time.time() - t0)
    return Result("inconclusive", None, detail=f"z3:{v}", query_s=time.time() - t0)


def _approx_true(f, env):
    if f.op == "and":
        return all(_approx_true(a, env) for a in f.args)
    if f.op == "eq":
        a, b = tm.evaluate(list(f.args), env, UF_FLOAT)
        if isinstance(a, (int, Fraction)) and isinstance(b, (int, Fraction)):
            return a == b
        return abs(float(a) - float(b)) <= 1e-9 * (1 + abs(float(a)) + abs(float(b)))
    if f.op == "le":
        a, b = tm.evaluate(list(f.args), env, UF_FLOAT)
        return float(a) <= float(b) + 1e-12
    return bool(tm.evaluate([f], env, UF_FLOAT)[0])


def _robustly_false(cond, env):
    """A comparison evaluated in floating point counts as false only with a clear margin."""
    if cond.op in ("lt", "le"):
        a, b = tm.evaluate(list(cond.args), env, UF_FLOAT)
        if isinstance(a, (int, Fraction)) and isinstance(b, (int, Fraction)):
            return True
        return float(a) - float(b) > 1e-7 * (1 + abs(float(a)) + abs(float(b)))
    if cond.op == "and":
        return any((not tm.evaluate([c], env, UF_FLOAT)[0]) and _robustly_false(c, env) for c in cond.args)
    return True
