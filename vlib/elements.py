"""Concrete finite element classes for harnesses (ufl.finiteelement only has the
abstract base).  Same constructor pattern as the repository's test/utils.py."""

from ufl.cell import Cell
from ufl.finiteelement import AbstractFiniteElement
from ufl.pullback import (
    IdentityPullback,
    MixedPullback,
    SymmetricPullback,
    contravariant_piola,
    covariant_contravariant_piola,
    covariant_piola,
    double_contravariant_piola,
    double_covariant_piola,
    identity_pullback,
    l2_piola,
)
from ufl.sobolevspace import H1, L2, HCurl, HDiv, HDivDiv, HEin


class FE(AbstractFiniteElement):
    def __init__(self, family, cell, degree, rshape, pullback, sobolev, sub_elements=(), tag=None, subdegree=None):
        self._family = family
        self._cell = cell
        self._degree = degree
        self._subdegree = degree if subdegree is None else subdegree
        self._rshape = tuple(rshape)
        self._pullback = pullback
        self._sobolev = sobolev
        self._subs = list(sub_elements)
        self._repr = tag or (
            f"FE({family!r}, {cell!r}, {degree}, {self._rshape}, {pullback!r}, {sobolev!s}, {self._subs!r}"
            + (f", subdegree={subdegree}" if subdegree is not None else "") + ")"
        )

    def __repr__(self):
        return self._repr

    def __str__(self):
        return f"<{self._family}{self._degree} on {self._cell}>"

    def __hash__(self):
        return hash(self._repr)

    def __eq__(self, other):
        return type(self) is type(other) and self._repr == other._repr

    @property
    def sobolev_space(self):
        return self._sobolev

    @property
    def pullback(self):
        return self._pullback

    @property
    def embedded_superdegree(self):
        return self._degree

    @property
    def embedded_subdegree(self):
        return self._subdegree

    @property
    def cell(self):
        return self._cell

    @property
    def reference_value_shape(self):
        return self._rshape

    @property
    def sub_elements(self):
        return self._subs


def P(cell, degree=1, shape=()):
    return FE("Lagrange", cell, degree, shape, identity_pullback, H1)


def Enriched(cell, degree=1, shape=(), subdegree=0):
    """An element that does not contain all polynomials of its highest degree (e.g. lowest-order Nedelec / Raviart-Thomas
    in physical space, bubble-enriched spaces): sub-degree < super-degree."""
    return FE("Enriched", cell, degree, shape, identity_pullback, H1, subdegree=subdegree)


def DG(cell, degree=0, shape=()):
    return FE("DG", cell, degree, shape, identity_pullback, L2)


def RT(cell, degree=1):
    return FE("RT", cell, degree, (cell.topological_dimension,), contravariant_piola, HDiv)


def N1(cell, degree=1):
    return FE("N1curl", cell, degree, (cell.topological_dimension,), covariant_piola, HCurl)


def DGL2(cell, degree=0):
    return FE("DGL2", cell, degree, (), l2_piola, L2)


def Regge(cell, degree=0):
    t = cell.topological_dimension
    return FE("Regge", cell, degree, (t, t), double_covariant_piola, HEin)


def HHJ(cell, degree=0):
    t = cell.topological_dimension
    return FE("HHJ", cell, degree, (t, t), double_contravariant_piola, HDivDiv)


def GLS(cell, degree=1):
    t = cell.topological_dimension
    return FE("GLS", cell, degree, (t, t), covariant_contravariant_piola, L2)


class Mixed(FE):
    def __init__(self, subs):
        subs = list(subs)
        cell = subs[0].cell
        degree = max(e.embedded_superdegree for e in subs)
        rshape = (sum(e.reference_value_size for e in subs),)
        self._subs = subs
        if all(isinstance(e.pullback, IdentityPullback) for e in subs):
            pb = IdentityPullback()
        else:
            pb = MixedPullback(self)
        super().__init__("Mixed", cell, degree, rshape, pb, L2, subs, tag=f"Mixed({subs!r})")


class Symmetric(FE):
    def __init__(self, symmetry, subs):
        subs = list(subs)
        self._subs = subs
        pb = SymmetricPullback(self, symmetry)
        rshape = (sum(e.reference_value_size for e in subs),)
        degree = max(e.embedded_superdegree for e in subs)
        super().__init__(
            "Symmetric", subs[0].cell, degree, rshape, pb, L2, subs,
            tag=f"Symmetric({symmetry!r}, {subs!r})",
        )


def sym2(cell, degrees=(1, 1, 1)):
    return Symmetric(
        {(0, 0): 0, (0, 1): 1, (1, 0): 1, (1, 1): 2}, [P(cell, d) for d in degrees]
    )
