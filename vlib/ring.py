"""Value domains for the denotation: Frac (real scalar = numerator term over a
factored monomial of denominator atoms), Cx (complex pair), Dual (first-order
perturbation, nestable).  Radicals and abs are hash-consed symbols with side
facts.  All identifications made with the polynomial normaliser are recorded
as lemma obligations that the solver has to discharge as well.
"""

from __future__ import annotations

import math
from fractions import Fraction

from . import terms as tm
from .terms import T


class DenotationError(Exception):
    """The denotation cannot represent this (=> inconclusive, never a pass)."""


class State:
    def __init__(self):
        self.reset()

    def reset(self):
        tm.reset()
        self.atoms = {}  # key -> T
        self.atom_of_term = {}  # T.id -> (coef, denmon) cache
        self.radicals = {}  # key -> (symT, radicandT)
        self.rad_by_name = {}  # var name -> (symT, radicandT)
        self.sq_lemmas = []  # identifications that additionally use recorded squares (y*y == x)
        self.lemmas = []  # Bool T: identifications made by the normaliser
        self.facts = []  # Bool T: definitional side facts (radicals, quotient vars)
        self.nonzero = []  # T terms assumed non-zero (denominators)
        self.domain = []  # Bool T: domain assumptions (radicands >= 0 ...)
        self.quot = {}
        self.squares = {}  # T.id of a symbol s -> term r with the side fact s*s == r (radicals, orientation)
        self.fresh = 0
        self.used_lemmas = []


ST = State()


def reset():
    ST.reset()


# --------------------------------------------------------------------------
# denominators
# --------------------------------------------------------------------------


def _atom_key(t: T):
    p = tm.to_poly(t)
    if p is None:
        return None, None
    return p, None


def split_den(t: T):
    """t == coef * prod(atom^e).  Returns (coef: Fraction, den: dict key->exp)."""
    r = ST.atom_of_term.get(t.id)
    if r is not None:
        return r
    if t.op == "c":
        if t.args[0] == 0:
            raise DenotationError("division by the constant zero")
        r = (t.args[0], {})
    elif t.op == "mul":
        c = Fraction(1)
        d = {}
        for a in t.args:
            ca, da = split_den(a)
            c *= ca
            for k, e in da.items():
                d[k] = d.get(k, 0) + e
        r = (c, d)
    else:
        p = tm.to_poly(t)
        if p is None:
            key = ("id", t.id)
            ST.atoms.setdefault(key, t)
            r = (Fraction(1), {key: 1})
        elif p.is_zero():
            raise DenotationError("division by an identically zero term")
        elif p.is_const():
            r = (p.cvalue(), {})
        else:
            c, mk = p.monic()
            key = ("p", mk)
            at = ST.atoms.get(key)
            if at is None:
                at = tm.mul(tm.const(1 / c), t)
                ST.atoms[key] = at
                ST.nonzero.append(at)
            else:
                # identification made by the normaliser: t == c * atom
                if tm.mul(tm.const(c), at) is not t:
                    ST.lemmas.append(tm.eq(t, tm.mul(tm.const(c), at)))
            r = (c, {key: 1})
    ST.atom_of_term[t.id] = r
    return r


def den_term(d: dict) -> T:
    fs = []
    for k in sorted(d, key=repr):
        fs.extend([ST.atoms[k]] * d[k])
    return tm.mul(*fs) if fs else tm.const(1)


def _lcm(d1, d2):
    d = dict(d1)
    for k, e in d2.items():
        if d.get(k, 0) < e:
            d[k] = e
    return d


def _quot(L, d):
    q = {}
    for k, e in L.items():
        r = e - d.get(k, 0)
        if r:
            q[k] = r
    return q


class Frac:
    __slots__ = ("n", "d")

    def __init__(self, n, d=None):
        self.n = tm.lift(n)
        self.d = d or {}

    # -- construction
    @staticmethod
    def of(x):
        if isinstance(x, Frac):
            return x
        return Frac(tm.lift(x))

    def is_zero(self):
        return self.n.op == "c" and self.n.args[0] == 0

    def const_value(self):
        if self.n.op == "c" and not self.d:
            return self.n.args[0]
        return None

    # -- ring ops
    def __add__(self, o):
        if isinstance(o, (Cx, Dual)):
            return o.__radd__(self)
        o = Frac.of(o)
        if self.is_zero():
            return o
        if o.is_zero():
            return self
        if self.d == o.d:
            return Frac(tm.add(self.n, o.n), self.d)
        L = _lcm(self.d, o.d)
        a = tm.mul(self.n, den_term(_quot(L, self.d)))
        b = tm.mul(o.n, den_term(_quot(L, o.d)))
        return Frac(tm.add(a, b), L)

    __radd__ = __add__

    def __neg__(self):
        return Frac(tm.mul(tm.const(-1), self.n), self.d)

    def __sub__(self, o):
        if isinstance(o, (Cx, Dual)):
            return o.__rsub__(self)
        return self + (-Frac.of(o))

    def __rsub__(self, o):
        return Frac.of(o) + (-self)

    def __mul__(self, o):
        if isinstance(o, (Cx, Dual)):
            return o.__rmul__(self)
        o = Frac.of(o)
        if self.is_zero() or o.is_zero():
            return Frac(tm.const(0))
        n = tm.mul(self.n, o.n)
        if not self.d and not o.d:
            return Frac(n)
        d = dict(self.d)
        for k, e in o.d.items():
            d[k] = d.get(k, 0) + e
        return _cancel(n, d)

    __rmul__ = __mul__

    def inv(self):
        c, d = split_den(self.n)
        return _cancel(tm.mul(tm.const(1 / c), den_term(self.d)), d)

    def __truediv__(self, o):
        if isinstance(o, (Cx, Dual)):
            return o.__rtruediv__(self)
        return self * Frac.of(o).inv()

    def __rtruediv__(self, o):
        return Frac.of(o) * self.inv()

    def __pow__(self, k):
        if isinstance(k, int):
            if k >= 0:
                r = Frac(tm.const(1))
                for _ in range(k):
                    r = r * self
                return r
            return (self ** (-k)).inv()
        raise DenotationError("Frac ** non-int")

    # -- comparisons produce Bool terms
    def _diff_sign_term(self, o):
        """A term with the sign of (self - o) provided denominators are non-zero."""
        o = Frac.of(o)
        L = _lcm(self.d, o.d)
        a = tm.mul(self.n, den_term(_quot(L, self.d)))
        b = tm.mul(o.n, den_term(_quot(L, o.d)))
        diff = tm.sub(a, b)
        odd = {k: 1 for k, e in L.items() if e % 2}
        return tm.mul(diff, den_term(odd)) if odd else diff

    def diff_num(self, o):
        """Numerator of (self - o) over the common denominator (for equality)."""
        o = Frac.of(o)
        L = _lcm(self.d, o.d)
        a = tm.mul(self.n, den_term(_quot(L, self.d)))
        b = tm.mul(o.n, den_term(_quot(L, o.d)))
        return tm.sub(a, b)

    def lt(self, o):
        return tm.lt(self._diff_sign_term(o), tm.const(0))

    def le(self, o):
        return tm.le(self._diff_sign_term(o), tm.const(0))

    def eq(self, o):
        return tm.eq(self.diff_num(o), tm.const(0))

    def conj(self):
        return self

    def real(self):
        return self

    def imag(self):
        return Frac(tm.const(0))

    def __repr__(self):
        return f"Frac({self.n}, {len(self.d)} atoms)"


def _cancel(n: T, d: dict) -> Frac:
    """Cancel top-level numerator factors that are denominator atoms."""
    if not d:
        return Frac(n)
    factors = list(n.args) if n.op == "mul" else [n]
    keep = []
    coef = Fraction(1)
    d = dict(d)
    changed = False
    for f in factors:
        if f.op in ("c",):
            keep.append(f)
            continue
        p = tm.to_poly(f)
        if p is None or p.is_zero() or p.is_const():
            keep.append(f)
            continue
        c, mk = p.monic()
        key = ("p", mk)
        if d.get(key, 0) > 0:
            at = ST.atoms[key]
            if tm.mul(tm.const(c), at) is not f:
                ST.lemmas.append(tm.eq(f, tm.mul(tm.const(c), at)))
            d[key] -= 1
            if d[key] == 0:
                del d[key]
            coef *= c
            changed = True
        else:
            keep.append(f)
    if not changed:
        return Frac(n, d)
    return Frac(tm.mul(tm.const(coef), *keep), d)


def ite(c: T, a, b):
    if isinstance(a, Cx) or isinstance(b, Cx):
        a, b = Cx.of(a), Cx.of(b)
        return Cx(ite(c, a.re, b.re), ite(c, a.im, b.im))
    if isinstance(a, Dual) or isinstance(b, Dual):
        a, b = Dual.of(a), Dual.of(b)
        return Dual(ite(c, a.a, b.a), ite(c, a.b, b.b))
    a, b = Frac.of(a), Frac.of(b)
    if c.op == "true":
        return a
    if c.op == "false":
        return b
    L = _lcm(a.d, b.d)
    na = tm.mul(a.n, den_term(_quot(L, a.d)))
    nb = tm.mul(b.n, den_term(_quot(L, b.d)))
    return Frac(tm.ite(c, na, nb), L)


# --------------------------------------------------------------------------
# canonical argument terms (for uninterpreted functions), radicals, abs
# --------------------------------------------------------------------------


def canon_term(t: T) -> T:
    """Canonical representative of a polynomial term (strengthens congruence);
    the identification is recorded as a lemma for the solver."""
    p = tm.to_poly(t)
    if p is None:
        return t
    c = tm.poly_to_term(p)
    if c is not t:
        ST.lemmas.append(tm.eq(t, c))
    return c


def frac_arg(x: Frac) -> T:
    """A Real term equal to the fraction (quotient variable with a defining fact
    when the denominator is non-trivial)."""
    if not x.d:
        return canon_term(x.n)
    n = canon_term(x.n)
    key = (n.id, tuple(sorted(x.d.items(), key=repr)))
    q = ST.quot.get(key)
    if q is None:
        q = tm.var(f"q!{len(ST.quot)}")
        ST.quot[key] = q
        ST.facts.append(tm.eq(tm.mul(q, den_term(x.d)), n))
    return q


def _squarefree(n: int):
    """n = s*s*f with f squarefree (n >= 1, trial division)."""
    s, f = 1, 1
    p = 2
    while p * p <= n:
        e = 0
        while n % p == 0:
            n //= p
            e += 1
        s *= p ** (e // 2)
        if e % 2:
            f *= p
        p += 1
    f *= n
    return s, f


def sqrt_const(q: Fraction) -> Frac:
    if q < 0:
        raise DenotationError("sqrt of a negative constant")
    if q == 0:
        return Frac(tm.const(0))
    N = q.numerator * q.denominator
    s, f = _squarefree(N)
    coef = Fraction(s, q.denominator)
    if f == 1:
        return Frac(tm.const(coef))
    key = ("const", f)
    r = ST.radicals.get(key)
    if r is None:
        sym = tm.var(f"rad!c{f}")
        r = (sym, tm.const(f))
        ST.radicals[key] = r
        ST.rad_by_name[sym.args[0]] = r
        ST.squares[sym.id] = tm.const(f)
        ST.facts.append(tm.and_(tm.ge(sym, 0), tm.eq(tm.mul(sym, sym), tm.const(f))))
    return Frac(tm.mul(tm.const(coef), r[0]))


def reduce_squares(poly):
    """Rewrite s^e -> s^(e mod 2) * r^(e div 2) for every symbol s with a recorded side fact
    s*s == r (sound by that fact).  Returns a Poly (or None if it grows too big)."""
    if poly is None or not ST.squares:
        return poly
    try:
        for _ in range(64):
            hit = False
            for vid, radt in ST.squares.items():
                if poly.degree_in(vid) >= 2:
                    rp = tm.to_poly(radt)
                    if rp is None:
                        return None
                    new = tm.Poly()
                    for m, c in poly.d.items():
                        e = dict(m).get(vid, 0)
                        if e >= 2:
                            rest = tuple((v, k) for v, k in m if v != vid)
                            if e % 2:
                                rest = tm._mono_mul(rest, ((vid, 1),))
                            new = new + (tm.Poly({rest: c}) * (rp ** (e // 2)))
                        else:
                            new = new + tm.Poly({m: c})
                    poly = new
                    hit = True
            if not hit:
                break
    except tm.PolyTooBig:
        return None
    return poly


def sqrt_term(p: T) -> Frac:
    """sqrt of a polynomial term, as coefficient * radical symbol."""
    poly = tm.to_poly(p)
    if poly is not None and ST.squares:
        red = reduce_squares(poly)
        if red is not None and red.key() != poly.key():
            # radicand rewritten with recorded squares (y*y == x): p == reduced under those facts
            p2 = tm.poly_to_term(red)
            ST.sq_lemmas.append(tm.eq(p, p2))
            poly, p = red, p2
    if poly is None:
        key = ("id", p.id)
        coef = Fraction(1)
        rad_t = p
    elif poly.is_zero():
        return Frac(tm.const(0))
    elif poly.is_const():
        return sqrt_const(poly.cvalue())
    else:
        c, mk = poly.monic()
        sign = 1 if c > 0 else -1
        key = ("p", sign, mk)
        coef = abs(c)
        rad_t = None
    r = ST.radicals.get(key)
    if r is None:
        if rad_t is None:
            rad_t = tm.poly_to_term(poly.scale(1 / coef))
        sym = tm.var(f"rad!{len(ST.radicals)}")
        r = (sym, rad_t)
        ST.radicals[key] = r
        ST.rad_by_name[sym.args[0]] = r
        ST.squares[sym.id] = rad_t
        ST.facts.append(tm.and_(tm.ge(sym, 0), tm.eq(tm.mul(sym, sym), rad_t)))
        ST.domain.append(tm.ge(rad_t, 0))
    if poly is not None:
        # p == coef * radicand  (normaliser identification)
        lhs = tm.mul(tm.const(coef), r[1])
        if lhs is not p:
            ST.lemmas.append(tm.eq(p, lhs))
    return sqrt_const(coef) * Frac(r[0])


def abs_term(t: T) -> Frac:
    return sqrt_term(tm.mul(t, t))


def frac_sqrt(x: Frac) -> Frac:
    # sqrt(n / (S^2 R)) = sqrt(n R) / (|S| |R|)
    if not x.d:
        return sqrt_term(x.n)
    R = {k: 1 for k, e in x.d.items() if e % 2}
    num = sqrt_term(tm.mul(x.n, den_term(R)))
    den = Frac(tm.const(1))
    for k, e in x.d.items():
        a = abs_term(ST.atoms[k])
        den = den * a ** ((e + 1) // 2)
    return num / den


def frac_abs(x: Frac) -> Frac:
    cv = x.const_value()
    if cv is not None:
        return Frac(tm.const(abs(cv)))
    num = abs_term(x.n)
    if not x.d:
        return num
    den = Frac(tm.const(1))
    for k, e in x.d.items():
        if e % 2 == 0:
            den = den * Frac(ST.atoms[k]) ** e
        else:
            den = den * Frac(ST.atoms[k]) ** (e - 1) * abs_term(ST.atoms[k])
    return num / den


# --------------------------------------------------------------------------
# complex pairs
# --------------------------------------------------------------------------


class Cx:
    __slots__ = ("re", "im")

    def __init__(self, re, im=None):
        self.re = Frac.of(re)
        self.im = Frac.of(im if im is not None else 0)

    @staticmethod
    def of(x):
        if isinstance(x, Cx):
            return x
        if isinstance(x, complex):
            return Cx(Fraction(x.real), Fraction(x.imag))
        return Cx(x)

    def __add__(self, o):
        if isinstance(o, Dual):
            return o.__radd__(self)
        o = Cx.of(o)
        return Cx(self.re + o.re, self.im + o.im)

    __radd__ = __add__

    def __neg__(self):
        return Cx(-self.re, -self.im)

    def __sub__(self, o):
        return self + (-o)

    def __rsub__(self, o):
        return Cx.of(o) + (-self)

    def __mul__(self, o):
        if isinstance(o, Dual):
            return o.__rmul__(self)
        o = Cx.of(o)
        return Cx(self.re * o.re - self.im * o.im, self.re * o.im + self.im * o.re)

    __rmul__ = __mul__

    def conj(self):
        return Cx(self.re, -self.im)

    def real(self):
        return Cx(self.re)

    def imag(self):
        return Cx(self.im)

    def norm2(self):
        return self.re * self.re + self.im * self.im

    def inv(self):
        n2 = self.norm2()
        return Cx(self.re / n2, (-self.im) / n2)

    def __truediv__(self, o):
        if isinstance(o, Dual):
            return o.__rtruediv__(self)
        return self * Cx.of(o).inv()

    def __rtruediv__(self, o):
        return Cx.of(o) * self.inv()

    def __pow__(self, k):
        if isinstance(k, int):
            if k >= 0:
                r = Cx(1)
                for _ in range(k):
                    r = r * self
                return r
            return (self ** (-k)).inv()
        raise DenotationError("Cx ** non-int")

    def eq(self, o):
        o = Cx.of(o)
        return tm.and_(self.re.eq(o.re), self.im.eq(o.im))

    def is_zero(self):
        return self.re.is_zero() and self.im.is_zero()


# --------------------------------------------------------------------------
# dual numbers (generic over the base)
# --------------------------------------------------------------------------


class Dual:
    __slots__ = ("a", "b")

    def __init__(self, a, b):
        self.a = a
        self.b = b

    @staticmethod
    def of(x, like=None):
        if isinstance(x, Dual):
            return x
        return Dual(x, zero_like(x))

    def __add__(self, o):
        if isinstance(o, Dual):
            return Dual(self.a + o.a, self.b + o.b)
        return Dual(self.a + o, self.b)

    __radd__ = __add__

    def __neg__(self):
        return Dual(-self.a, -self.b)

    def __sub__(self, o):
        return self + (-o)

    def __rsub__(self, o):
        return (-self) + o

    def __mul__(self, o):
        if isinstance(o, Dual):
            return Dual(self.a * o.a, self.a * o.b + self.b * o.a)
        return Dual(self.a * o, self.b * o)

    __rmul__ = __mul__

    def inv(self):
        ia = inv(self.a)
        return Dual(ia, -(self.b * ia * ia))

    def __truediv__(self, o):
        return self * inv(o)

    def __rtruediv__(self, o):
        return o * self.inv()

    def __pow__(self, k):
        if isinstance(k, int):
            if k >= 0:
                r = one_like(self)
                for _ in range(k):
                    r = r * self
                return r
            return (self ** (-k)).inv()
        raise DenotationError("Dual ** non-int")

    def conj(self):
        return Dual(conj(self.a), conj(self.b))

    def real(self):
        return Dual(real(self.a), real(self.b))

    def imag(self):
        return Dual(imag(self.a), imag(self.b))

    def is_zero(self):
        return is_zero(self.a) and is_zero(self.b)


def zero_like(x):
    if isinstance(x, Dual):
        return Dual(zero_like(x.a), zero_like(x.b))
    if isinstance(x, Cx):
        return Cx(0)
    return Frac(tm.const(0))


def one_like(x):
    if isinstance(x, Dual):
        return Dual(one_like(x.a), zero_like(x.b))
    if isinstance(x, Cx):
        return Cx(1)
    return Frac(tm.const(1))


def const_like(x, c):
    return one_like(x) * Frac(tm.const(c)) if not isinstance(c, complex) else one_like(x) * Cx.of(c)


def inv(x):
    if isinstance(x, (Frac, Cx, Dual)):
        return x.inv()
    return Frac.of(x).inv()


def conj(x):
    return x.conj()


def real(x):
    return x.real()


def imag(x):
    return x.imag()


def is_zero(x):
    return x.is_zero()


def depth(x):
    return 1 + depth(x.a) if isinstance(x, Dual) else 0


def primal(x):
    while isinstance(x, Dual):
        x = x.a
    return x


# --------------------------------------------------------------------------
# functions with their derivatives (textbook forms)
# --------------------------------------------------------------------------


def _uf1(name):
    def f(x):
        return apply_fn(name, x)

    return f


def _c(x, v):
    return const_like(x, Fraction(v))


SQRT_PI_INV2 = Fraction(2 / math.sqrt(math.pi))  # the float UFL uses is checked in C02

DERIV = {
    "sqrt": lambda x: inv(_c(x, 2) * apply_fn("sqrt", x)),
    "exp": lambda x: apply_fn("exp", x),
    "ln": lambda x: inv(x),
    "sin": lambda x: apply_fn("cos", x),
    "cos": lambda x: -apply_fn("sin", x),
    "tan": lambda x: inv(apply_fn("cos", x) * apply_fn("cos", x)),
    "cosh": lambda x: apply_fn("sinh", x),
    "sinh": lambda x: apply_fn("cosh", x),
    "tanh": lambda x: inv(apply_fn("cosh", x) * apply_fn("cosh", x)),
    "acos": lambda x: -inv(apply_fn("sqrt", one_like(x) - x * x)),
    "asin": lambda x: inv(apply_fn("sqrt", one_like(x) - x * x)),
    "atan": lambda x: inv(one_like(x) + x * x),
    "erf": lambda x: apply_fn("erf_c", x) * apply_fn("exp", -(x * x)),
}


def apply_fn(name, x):
    """Apply a univariate function to a ring value."""
    if name == "erf_c":  # the constant 2/sqrt(pi), as the double-precision literal 2.0/sqrt(pi)
        from .denote import float_literal

        return one_like(x) * Frac(tm.const(float_literal(2.0 / math.sqrt(math.pi))))
    if isinstance(x, Dual):
        return Dual(apply_fn(name, x.a), DERIV[name](x.a) * x.b)
    if isinstance(x, Cx):
        cr, ci = x.re.const_value(), x.im.const_value()
        if ci == 0 and (name in REAL_ON_REALS or name == "sqrt"):
            # real argument; for sqrt the radicand is assumed in domain (>= 0, recorded as a domain fact)
            return Cx(apply_fn(name, x.re))
        ar, ai = frac_arg(x.re), frac_arg(x.im)
        return Cx(Frac(tm.uf("uf_re_" + name, ar, ai)), Frac(tm.uf("uf_im_" + name, ar, ai)))
    x = Frac.of(x)
    if name == "sqrt":
        return frac_sqrt(x)
    cv = x.const_value()
    if cv is not None and cv == 0 and name in ZERO_AT_ZERO:
        return Frac(tm.const(ZERO_AT_ZERO[name]))
    if cv is not None and name in MATH_FOLD:
        # a function of a literal: the double-precision value, as UFL's constant folding
        # computes it (rounding of constant folding is outside every claim)
        from .denote import float_literal

        try:
            return Frac(tm.const(float_literal(MATH_FOLD[name](float(cv)))))
        except ValueError:
            pass
    return Frac(tm.uf("uf_" + name, frac_arg(x)))


MATH_FOLD = {"exp": math.exp, "ln": math.log, "sin": math.sin, "cos": math.cos, "tan": math.tan,
             "cosh": math.cosh, "sinh": math.sinh, "tanh": math.tanh, "acos": math.acos, "asin": math.asin,
             "atan": math.atan, "erf": math.erf}
REAL_ON_REALS = {"exp", "sin", "cos", "tan", "cosh", "sinh", "tanh", "atan", "erf"}
ZERO_AT_ZERO = {"exp": 1, "sin": 0, "cos": 1, "tan": 0, "cosh": 1, "sinh": 0, "tanh": 0, "atan": 0,
                "erf": 0, "asin": 0}


def apply_fn2(name, x, y, dx, dy):
    """Bivariate function with partial derivative builders dx(x,y), dy(x,y)."""
    if isinstance(x, Dual) or isinstance(y, Dual):
        x, y = _same_depth(x, y)
        return Dual(apply_fn2(name, x.a, y.a, dx, dy), dx(x.a, y.a) * x.b + dy(x.a, y.a) * y.b)
    if isinstance(x, Cx) or isinstance(y, Cx):
        raise DenotationError(f"{name} on complex values")
    return Frac(tm.uf("uf_" + name, frac_arg(Frac.of(x)), frac_arg(Frac.of(y))))


def _same_depth(x, y):
    while depth(x) < depth(y):
        x = Dual(x, zero_like(x))
    while depth(y) < depth(x):
        y = Dual(y, zero_like(y))
    return x, y


def absval(x):
    if isinstance(x, Dual):
        # d|x| = sgn(x) dx  (sgn(0) = 0), for real x
        a = absval(x.a)
        p = primal(x.a)
        pr = p.re if isinstance(p, Cx) else p
        z = Frac(tm.const(0))
        one = one_like(x.b)
        sg = ite(pr.lt(z), -one, ite(pr.eq(z), zero_like(x.b), one))
        return Dual(a, sg * x.b)
    if isinstance(x, Cx):
        if x.im.is_zero():
            return Cx(frac_abs(x.re))
        return Cx(frac_sqrt(x.norm2()))
    return frac_abs(Frac.of(x))


def sqrtval(x):
    return apply_fn("sqrt", x)


def sign_term(x) -> T:
    """A term with the sign of a real Frac."""
    x = Frac.of(x)
    return x._diff_sign_term(Frac(tm.const(0)))


def _real_frac(x):
    x = primal(x)
    return x.re if isinstance(x, Cx) else Frac.of(x)


def sign_term_ge(x) -> T:
    """Bool term: x >= 0 (x a real value)."""
    return Frac(tm.const(0)).le(_real_frac(x))


def sign_term_gt(x) -> T:
    return Frac(tm.const(0)).lt(_real_frac(x))


def sign_term_lt(x) -> T:
    return _real_frac(x).lt(Frac(tm.const(0)))
