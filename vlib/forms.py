"""Form-level denotation: a form denotes, per (integral type, subdomain id), the sum of
its integrand values (measures/metadata are compared structurally by the checks)."""

from __future__ import annotations

from . import ring
from .ring import DenotationError


def key_of(itg):
    return (itg.integral_type(), str(itg.subdomain_id()))


def form_value(den, form, ctx=(), side=None, env_for=None):
    """dict key -> ring value.  Interior-facet integrands are evaluated without a default
    side: restricted terminals carry their side, unrestricted ones must be side independent."""
    out = {}
    if form is None or form == 0:
        return out
    for itg in form.integrals():
        e = itg.integrand()
        if e.ufl_shape != () or e.ufl_free_indices:
            raise DenotationError("integrand is not a closed scalar")
        v = den.ev(e, (), {}, ctx, side)
        k = key_of(itg)
        out[k] = v if k not in out else out[k] + v
    return out


def pairs_for(keys, a, b, zero):
    return [(a.get(k, zero), b.get(k, zero)) for k in keys]
