"""Finite-dimensional symbolic model of base forms (C28).

Every function space S has dim(S) basis functions, known at one quadrature point per measure through symbols for
their values and derivatives.  `assemble(obj)` maps a UFL base form to a tensor of ring terms with one slot per
argument:

  Form          entry[i0..ir] = [[integrand]] with Argument k := basis i_k of its space and every Coefficient
                f := sum_j dof(f, j) * basis j  (derivatives included), summed over integrals
  Matrix        free symbols M[i][j];  Cofunction: free symbols c[i];  Coefficient: its dof symbols f[j]
  Argument / Coargument (as base forms): the identity
  FormSum       weighted sum (weights denoted as scalar constants: numbers or Constant symbols)
  Action        contraction of the last slot of the left operand with the first slot of the right operand
  Adjoint       transposition;  ZeroBaseForm: zeros shaped by its arguments;  Sum of coefficients: entry-wise sum

The semantic operations (`s_add`, `s_scale`, `s_action`, `s_adjoint`, `s_derivative`) are the specification side.
"""

from __future__ import annotations

import itertools
from fractions import Fraction

import ufl
import ufl.classes as C
from ufl.duals import is_dual

from . import terms as tm
from .denote import Denoter, Env
from .ring import DenotationError, Frac


class ModelError(Exception):
    pass


class Tensor:
    def __init__(self, slots, data):
        self.slots = tuple(slots)  # function spaces, one per argument slot
        self.data = data  # dict index tuple -> Frac

    def indices(self, model):
        return itertools.product(*[range(model.dim(s)) for s in self.slots])


def primal(S):
    return S.dual() if is_dual(S) else S


class Model:
    def __init__(self, dims):
        self._dims = [(primal(S), n) for S, n in dims]
        self.zero = Frac(tm.const(0))
        self.one = Frac(tm.const(1))

    def dim(self, S):
        P = primal(S)
        for Q, n in self._dims:
            if Q == P:
                return n
        raise ModelError(f"no dimension for space {S}")

    def sname(self, S):
        P = primal(S)
        for k, (Q, _) in enumerate(self._dims):
            if Q == P:
                return "VUWXYZ"[k]
        raise ModelError("space")

    # ---- symbols
    def basis(self, S, j, comp, derivs, measure):
        d = "".join(f"_d{k}{i}" for k, i in sorted(derivs))
        return Frac(tm.var(f"phi{self.sname(S)}{j}{list(comp)}{d}@{measure}".replace(" ", "")))

    def dof(self, f, j):
        return Frac(tm.var(f"dof{f.count()}_{j}"))

    def dof_names(self, f):
        return [f"dof{f.count()}_{j}" for j in range(self.dim(f.ufl_function_space()))]

    # ---- assembly
    def assemble(self, o):
        if isinstance(o, C.Form):
            return self._form(o)
        if isinstance(o, C.ZeroBaseForm):
            slots = [a.ufl_function_space() for a in o.arguments()]
            t = Tensor(slots, {})
            t.data = {i: self.zero for i in t.indices(self)}
            return t
        if isinstance(o, C.FormSum):
            # an empty Form is UFL's argument-less zero: it contributes nothing, whatever its (undetermined) arguments
            parts = [(self.assemble(c), self.weight(w)) for c, w in zip(o.components(), o.weights())
                     if not (isinstance(c, C.Form) and c.empty())]
            if not parts:
                raise ModelError("empty FormSum")
            acc = None
            for t, w in parts:
                acc = s_scale(self, w, t) if acc is None else s_add(self, acc, s_scale(self, w, t))
            return acc
        if isinstance(o, C.Action):
            return s_action(self, self.assemble(o.left()), self.assemble(o.right()))
        if isinstance(o, C.Adjoint):
            return s_adjoint(self, self.assemble(o.form()))
        if isinstance(o, C.Matrix):
            slots = [a.ufl_function_space() for a in o.arguments()]
            t = Tensor(slots, {})
            t.data = {i: Frac(tm.var(f"M{o.count()}_{i[0]}_{i[1]}")) for i in t.indices(self)}
            return t
        if isinstance(o, C.Cofunction):
            S = o.arguments()[0].ufl_function_space()
            return Tensor([S], {(j,): Frac(tm.var(f"cof{o.count()}_{j}")) for j in range(self.dim(S))})
        if isinstance(o, C.Coefficient):
            S = o.ufl_function_space()
            return Tensor([S.dual()], {(j,): self.dof(o, j) for j in range(self.dim(S))})
        if isinstance(o, (C.Argument, C.Coargument)):
            slots = argument_slots(o)
            n = self.dim(slots[0])
            return Tensor(slots, {(i, j): (self.one if i == j else self.zero) for i in range(n) for j in range(n)})
        if isinstance(o, C.Sum):
            a, b = o.ufl_operands
            return s_add(self, self.assemble(a), self.assemble(b))
        if isinstance(o, C.Product):
            a, b = o.ufl_operands
            if isinstance(a, C.ScalarValue) or (isinstance(a, C.Constant) and a.ufl_shape == ()):
                return s_scale(self, self.weight(a), self.assemble(b))
            if isinstance(b, C.ScalarValue) or (isinstance(b, C.Constant) and b.ufl_shape == ()):
                return s_scale(self, self.weight(b), self.assemble(a))
        raise ModelError(f"cannot assemble {type(o).__name__}")

    def weight(self, w):
        if isinstance(w, (int, float)):
            return Frac(tm.const(Fraction(w)))
        v = Denoter(Env()).ev(ufl.as_ufl(w), (), {}, (), None)
        return v

    def _form(self, form):
        args = form.arguments()
        slots = [a.ufl_function_space() for a in args]
        t = Tensor(slots, {})
        coeffs = [c for c in form.coefficients() if isinstance(c, C.Coefficient)]
        for idx in t.indices(self):
            total = self.zero
            for itg in form.integrals():
                measure = f"{itg.integral_type()}{itg.subdomain_id()}"
                env = Env()
                for a, j in zip(args, idx):
                    env.arg_override[a] = (lambda S, j: lambda comp, derivs, side: self.basis(S, j, comp, derivs, measure))(
                        a.ufl_function_space(), j)
                for f in coeffs:
                    S = f.ufl_function_space()

                    def val(comp, derivs, side, f=f, S=S):
                        acc = self.zero
                        for j in range(self.dim(S)):
                            acc = acc + self.dof(f, j) * self.basis(S, j, comp, derivs, measure)
                        return acc

                    env.arg_override[f] = val
                e = itg.integrand()
                if e.ufl_shape != () or e.ufl_free_indices:
                    raise DenotationError("integrand is not a closed scalar")
                total = total + Denoter(env).ev(e, (), {}, (), None)
            t.data[idx] = total
        return t


def argument_slots(o):
    """An Argument in S (resp. a Coargument in S*) used as a base form is the identity: S* x S (resp. S x S*)."""
    S = o.ufl_function_space()
    return [S.dual(), S]


# ---- semantic operations (specification)

def same_slots(a, b):
    return len(a.slots) == len(b.slots) and all(x == y for x, y in zip(a.slots, b.slots))


def s_add(model, a, b):
    if not same_slots(a, b):
        raise ModelError("sum of maps with different argument spaces")
    return Tensor(a.slots, {i: a.data[i] + b.data[i] for i in a.data})


def s_scale(model, w, a):
    return Tensor(a.slots, {i: w * v for i, v in a.data.items()})


def s_adjoint(model, a):
    if len(a.slots) != 2:
        raise ModelError("adjoint of a non-2-form")
    return Tensor(a.slots[::-1], {(j, i): v for (i, j), v in a.data.items()})


def s_action(model, a, b):
    if not a.slots or not b.slots:
        raise ModelError("nothing to contract")
    if primal(a.slots[-1]) != primal(b.slots[0]) or is_dual(a.slots[-1]) == is_dual(b.slots[0]):
        raise ModelError("incompatible spaces in contraction")
    n = model.dim(a.slots[-1])
    out = Tensor(a.slots[:-1] + b.slots[1:], {})
    for i in itertools.product(*[range(model.dim(s)) for s in a.slots[:-1]]):
        for k in itertools.product(*[range(model.dim(s)) for s in b.slots[1:]]):
            acc = model.zero
            for j in range(n):
                acc = acc + a.data[i + (j,)] * b.data[(j,) + k]
            out.data[i + k] = acc
    return out


def poly_derivative(t: Frac, name):
    """d t / d name for a polynomial term (no denominators)."""
    if t.d:
        raise ModelError("derivative of a non-polynomial entry")
    p = tm.to_poly(t.n)
    if p is None:
        raise ModelError("entry too big for polynomial normal form")
    vid = tm.var(name).id
    out = tm.Poly()
    d = {}
    for m, c in p.d.items():
        for k, (v, e) in enumerate(m):
            if v == vid:
                m2 = m[:k] + (((v, e - 1),) if e > 1 else ()) + m[k + 1:]
                d[m2] = d.get(m2, 0) + c * e
    out.d = {m: c for m, c in d.items() if c != 0}
    tm.to_poly(tm.var(name))  # make sure the variable is registered for poly_to_term
    return Frac(tm.poly_to_term(out))


def s_derivative(model, a, f):
    """Gateaux derivative w.r.t. the dofs of coefficient f: one new trailing slot in f's space."""
    S = f.ufl_function_space()
    names = model.dof_names(f)
    out = Tensor(a.slots + (S,), {})
    for i, v in a.data.items():
        for j, nm in enumerate(names):
            out.data[i + (j,)] = poly_derivative(v, nm)
    return out


def depends_on(model, t, f):
    names = set(model.dof_names(f))
    return any(n in names for n, _ in tm.variables([v.n for v in t.data.values()]))
