"""Translation validation of one (input, output) pair of UFL expressions."""

from __future__ import annotations

import itertools
import time

from . import ring, solve
from . import terms as tm
from .denote import Denoter, Env
from .harness import outcome
from .ring import DenotationError


def structure_mismatch(e_in, e_out):
    if e_in.ufl_shape != e_out.ufl_shape:
        return f"shape {e_in.ufl_shape} -> {e_out.ufl_shape}"
    fi = dict(zip(e_in.ufl_free_indices, e_in.ufl_index_dimensions))
    fo = dict(zip(e_out.ufl_free_indices, e_out.ufl_index_dimensions))
    if fi != fo:
        return f"free indices {fi} -> {fo}"
    return None


ILL_FORMED = ("component out of range", "unbound free index", "unbound index", "does not match shape")


class OutputIllFormed(Exception):
    pass


def value_pairs(den, e_in, e_out, ctx=(), side=None, comps=None):
    """Denote the input first (a failure there is the harness's problem), then the
    output; an output that cannot be evaluated because it is ill-formed (component out
    of range, unbound index, shape mismatch) is reported as such."""
    pairs = []
    where = []
    comps = comps if comps is not None else den.components(e_in)
    todo = []
    for comp in comps:
        for idx in den.index_valuations(e_in):
            todo.append((comp, dict(idx), den.ev(e_in, comp, idx, ctx, side)))
    for comp, idx, a in todo:
        try:
            b = den.ev(e_out, comp, idx, ctx, side)
        except DenotationError as ex:
            if any(m in str(ex) for m in ILL_FORMED):
                raise OutputIllFormed(str(ex))
            raise
        pairs.append((a, b))
        where.append((comp, idx))
    return pairs, where


def compare(name, e_in, e_out, env=None, *, ctx=(), side=None, timeout=20, lemmas=None,
            assumptions=(), sample=None, twin=False, check_structure=True, in_repr=None):
    """Decide [[e_in]] == [[e_out]] for all values.  `in_repr` is repr(e_in) taken
    before the pass ran (input-mutation guard)."""
    t0 = time.time()
    sample = sample or (str(e_in)[:300] + "  ==>  " + str(e_out)[:300])
    if in_repr is not None and repr(e_in) != in_repr:
        return outcome(name, "inconclusive", detail="input repr changed during the pass", sample=sample)
    if check_structure:
        mm = structure_mismatch(e_in, e_out)
        if mm:
            return outcome(name, "violated", detail="structural: " + mm, sample=sample, twin=twin,
                           witness={"structural": mm})
    env = env or Env()
    den = Denoter(env)
    try:
        pairs, where = value_pairs(den, e_in, e_out, ctx, side)
        diffs = solve.flatten_diffs(pairs)
    except OutputIllFormed as ex:
        return outcome(name, "violated", detail=f"output expression is ill-formed: {ex}", sample=sample,
                       twin=twin, witness={"structural": str(ex)})
    except DenotationError as ex:
        return outcome(name, "inconclusive", detail=f"denotation: {ex}", sample=sample, twin=twin)
    from . import lemmas as _lem

    li, lnames = _lem.instances(diffs)
    r = solve.prove_all_zero(diffs, assumptions, timeout, li, label=name)
    ok, bad = solve.discharge_lemmas(timeout)
    status = r.status
    detail = r.detail
    if status == "proved" and bad:
        status = "inconclusive"
        detail = f"{bad} normaliser identification lemma(s) not discharged"
    wit = r.witness
    if status == "violated":
        i = getattr(r, "index", None)
        detail = f"values differ ({r.stage})"
        if i is not None:
            # map flat index back (approximately: pairs may expand to several reals)
            detail += f" at flat component #{i} of {len(diffs)}"
    return outcome(name, status, stage=r.stage, detail=detail, witness=wit, sample=sample,
                   twin=twin, term_size=r.size, lemmas_discharged=ok,
                   n_components=len(pairs), lemma_instances=sorted(set(lnames)) if r.stage == 2 else [])
