"""Obligation runner, evidence writer, known-findings handling, exit codes.

Exit codes: 0 all obligations discharged; 1 replayed violation not listed as a
known finding; 3 inconclusive obligation / harness problem (never printed as a
VIOLATION)."""

from __future__ import annotations

import json
import multiprocessing as mp
import os
import sys
import time
import traceback

ROOT = os.path.dirname(os.path.dirname(os.path.abspath(__file__)))

sys.setrecursionlimit(20000)


class Outcome(dict):
    pass


def outcome(name, status, **kw):
    d = Outcome(name=name, status=status)
    d.update(kw)
    return d


def _run_one(args):
    modname, fname, spec = args
    import importlib

    t0 = time.time()
    try:
        from vlib import ring, solve

        ring.reset()
        solve.reset_stats()
        mod = importlib.import_module(modname)
        res = getattr(mod, fname)(spec)
        if isinstance(res, dict):
            res = [res]
        for r in res:
            r.setdefault("wall_s", round(time.time() - t0, 3))
        st = dict(solve.STATS)
        res[0]["z3_queries"] = st["queries"]
        res[0]["z3_s"] = round(st["solver_s"], 3)
        return res
    except BaseException as ex:  # noqa: BLE001
        return [
            outcome(
                str(spec.get("name", spec)) if isinstance(spec, dict) else str(spec),
                "error",
                detail=f"{type(ex).__name__}: {ex}",
                trace=traceback.format_exc()[-1500:],
                wall_s=round(time.time() - t0, 3),
            )
        ]


def _worker_main(conn, modname, fname):
    import signal

    signal.signal(signal.SIGINT, signal.SIG_IGN)
    while True:
        try:
            msg = conn.recv()
        except EOFError:
            return
        if msg is None:
            return
        i, spec = msg
        res = _run_one((modname, fname, spec))
        try:
            conn.send((i, res))
        except Exception as ex:  # unpicklable payload
            conn.send((i, [outcome(_spec_name(spec), "error", detail=f"send failed: {ex}")]))


def run_pool(modname, fname, specs, workers=None, task_timeout=None):
    """Run obligations in worker processes.  Each task has a wall-clock limit
    (spec['task_timeout'] or task_timeout, default 300 s); an overrunning or dying
    worker is killed/replaced and its obligation reported inconclusive."""
    from multiprocessing.connection import wait

    workers = workers or int(os.environ.get("VERIF_WORKERS", "16"))
    default_to = task_timeout or float(os.environ.get("VERIF_TASK_TIMEOUT", "300"))
    specs = list(specs)
    if workers <= 1 or len(specs) <= 1:
        out = []
        for s in specs:
            out.extend(_run_one((modname, fname, s)))
        return out
    ctx = mp.get_context("fork")
    pending = list(enumerate(specs))[::-1]
    out = []
    slots = []

    def spawn():
        pc, cc = ctx.Pipe()
        p = ctx.Process(target=_worker_main, args=(cc, modname, fname), daemon=True)
        p.start()
        cc.close()
        return {"proc": p, "conn": pc, "task": None, "t0": 0.0}

    def give(slot):
        if pending:
            i, spec = pending.pop()
            slot["task"] = (i, spec)
            slot["t0"] = time.time()
            slot["conn"].send((i, spec))
        else:
            slot["task"] = None

    for _ in range(min(workers, len(specs))):
        sl = spawn()
        slots.append(sl)
        give(sl)
    while any(sl["task"] is not None for sl in slots):
        busy = [sl for sl in slots if sl["task"] is not None]
        ready = wait([sl["conn"] for sl in busy], timeout=1.0)
        now = time.time()
        for sl in busy:
            i, spec = sl["task"]
            lim = spec.get("task_timeout", default_to) if isinstance(spec, dict) else default_to
            if sl["conn"] in ready:
                try:
                    _, res = sl["conn"].recv()
                    out.extend(res)
                    give(sl)
                    continue
                except (EOFError, OSError):
                    out.append(outcome(_spec_name(spec), "error", detail="worker died"))
            elif now - sl["t0"] > lim:
                out.append(outcome(_spec_name(spec), "inconclusive",
                                   detail=f"obligation exceeded its wall-clock limit of {lim}s"))
            elif not sl["proc"].is_alive():
                out.append(outcome(_spec_name(spec), "error", detail="worker died"))
            else:
                continue
            try:
                sl["proc"].kill()
                sl["proc"].join(5)
                sl["conn"].close()
            except Exception:
                pass
            sl.update(spawn())
            give(sl)
    for sl in slots:
        try:
            sl["conn"].send(None)
            sl["proc"].join(2)
            if sl["proc"].is_alive():
                sl["proc"].kill()
        except Exception:
            pass
    return out


def _spec_name(spec):
    return str(spec.get("name", spec)) if isinstance(spec, dict) else str(spec)


def load_known(prop):
    p = os.path.join(ROOT, "known_findings.json")
    if not os.path.exists(p):
        return []
    data = json.load(open(p))
    return [k for k in data.get("findings", []) if k["property"] == prop and k.get("status") == "known"]


def finish(prop, tier, level, results, t0, *, functions, bounds, assumptions, rule,
           trusted_base=(), extra=None, twins_expected=()):
    """Write evidence, print verdict lines, return exit code."""
    seed = int(os.environ.get("VERIF_SEED", "0") or 0)
    if os.environ.get("VERIF_DUMP"):
        with open(os.environ["VERIF_DUMP"], "w") as f:
            json.dump(results, f, default=str)
    known = load_known(prop)
    known_ids = {k["id"]: k for k in known}
    viol = [r for r in results if r["status"] == "violated" and not r.get("twin")]
    incon = [r for r in results if r["status"] in ("inconclusive", "error") and not r.get("twin")]
    proved = [r for r in results if r["status"] in ("proved", "rejected") and not r.get("twin")]
    twins = [r for r in results if r.get("twin")]
    twins_bad = [r for r in twins if r["status"] != "violated"]
    rc = 0
    os.makedirs(os.path.join(ROOT, "replays", prop), exist_ok=True)
    new_viol = []
    for r in viol:
        k = known_ids.get(r["name"])
        if k is not None:
            print(f"KNOWN-FINDING: property={prop} {r['name']}: {k['what']}")
        else:
            new_viol.append(r)
    for k in known:
        hit = [r for r in results if r["name"] == k["id"]]
        if hit and hit[0]["status"] == "proved":
            print(f"note: known finding {k['id']} no longer reproduces (obligation proved)")
    for r in new_viol:
        path = os.path.join(ROOT, "replays", prop, _safe(r["name"]) + ".json")
        with open(path, "w") as f:
            json.dump(r, f, indent=1, default=str)
        print(f"VIOLATION property={prop} replay={path}")
        print(f"  obligation {r['name']}: {r.get('detail', '')}"[:600])
        rc = 1
    if incon or twins_bad:
        for r in (incon + twins_bad)[: (10**6 if os.environ.get("VERIF_VERBOSE") else 20)]:
            print(f"INCONCLUSIVE property={prop} obligation={r['name']} status={r['status']} "
                  f"{str(r.get('detail', ''))[:300]}")
            if r.get("trace"):
                print("   " + r["trace"].replace("\n", "\n   ")[-800:])
        if rc == 0:
            rc = 3
    nq = sum(r.get("z3_queries", 0) for r in results)
    zs = sum(r.get("z3_s", 0.0) for r in results)
    samples = []
    for r in results:
        if r.get("sample") and len(samples) < 8:
            samples.append({"obligation": r["name"], "input": r["sample"][:400],
                            "status": r["status"], "stage": r.get("stage"),
                            "queries": r.get("z3_queries", r.get("queries"))})
    if not samples:
        samples = [{"obligation": r["name"], "status": r["status"]} for r in results[:5]]
    distinct = len({r["name"] for r in results if not r.get("twin") and r["status"] != "error"})
    cov = {
        "programs": len(proved) + len(viol) + len(incon),
        "disagreements_checked": len(viol) + len([t for t in twins if t["status"] == "violated"]),
        "samples": samples,
        "obligations": len(proved) + len(viol) + len(incon),
        "discharged": len(proved),
        "evaluations": len(results),
        "distinct_nontrivial": max(distinct, 0),
        "rule": rule,
        "checker_cmd": f"z3 (SMT-LIB2 via `{os.environ.get('VERIF_Z3', 'z3-new')} -in`), per obligation, hard kill",
        "trusted_base": list(trusted_base),
        "functions_encoded": functions,
        "bounds": bounds,
        "solver_queries": nq,
        "solver_time_s": round(zs, 2),
        "inconclusive": len(incon),
        "known_findings_reported": len(viol) - len(new_viol),
        "vacuity_twins": {"run": len(twins), "refuted_as_expected": len(twins) - len(twins_bad)},
        "explanation": rule,
        "exhaustive": False,
    }
    if extra:
        cov.update(extra)
    ev = {
        "property_id": prop,
        "tier": tier,
        "seed": seed,
        "level": level,
        "coverage": cov,
        "assumptions": list(assumptions),
        "wall_s": round(time.time() - t0, 2),
        "violations": len(new_viol),
    }
    evdir = os.environ.get("VERIF_EVIDENCE_DIR") or os.path.join(ROOT, "evidence")  # seeded-change runs write elsewhere
    os.makedirs(evdir, exist_ok=True)
    with open(os.path.join(evdir, f"{prop}.json"), "w") as f:
        json.dump(ev, f, indent=1, default=str)
    print(
        f"[{prop} {tier}] obligations={cov['obligations']} discharged={cov['discharged']} "
        f"violations={len(new_viol)} known={cov['known_findings_reported']} inconclusive={len(incon)} "
        f"twins={len(twins) - len(twins_bad)}/{len(twins)} z3_queries={nq} z3_s={zs:.1f} "
        f"wall={ev['wall_s']}s rc={rc}"
    )
    return rc


def _safe(s):
    return "".join(c if c.isalnum() or c in "-_." else "_" for c in s)[:120]


def tier_from_argv():
    t = os.environ.get("VERIF_TIER")
    for i, a in enumerate(sys.argv):
        if a == "--tier" and i + 1 < len(sys.argv):
            t = sys.argv[i + 1]
    return t or "quick"
