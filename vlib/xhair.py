"""E2: run CrossHair on harness functions (one subprocess per condition, hard time limit) and
classify its report.  Counterexamples are replayed concretely in a fresh interpreter."""

from __future__ import annotations

import ast
import os
import re
import subprocess
import sys
import time

from .harness import ROOT, outcome

PY = os.path.join(ROOT, ".venv", "bin", "python")
XH = os.path.join(ROOT, ".venv", "bin", "crosshair")


def run_crosshair(target, per_condition_timeout=120, extra=()):
    env = dict(os.environ, PYTHONPATH=os.environ.get("PYTHONPATH") or ROOT, PYTHONHASHSEED="0")
    t0 = time.time()
    try:
        p = subprocess.run([XH, "check", "--report_all", "--per_condition_timeout", str(per_condition_timeout),
                            *extra, target], capture_output=True, text=True, env=env,
                           timeout=per_condition_timeout * 1.5 + 60)
        out = p.stdout + p.stderr
    except subprocess.TimeoutExpired:
        out = "TIMEOUT"
    return out, time.time() - t0


_CEX = re.compile(r"error: .*? when calling (\w+)\((.*?)\)(?: \(which returns (.*)\))?\s*$", re.M)


def classify(out):
    """-> (verdict, counterexample args string or None)"""
    if "Confirmed over all paths" in out:
        return "confirmed", None
    m = _CEX.search(out)
    if m:
        return "counterexample", m.group(2)
    if "Not confirmed" in out:
        return "not_confirmed", None
    if "Unable to meet precondition" in out:
        return "no_precondition", None
    return "other", None


def replay(module, func, argstr, post):
    """Call module.func(args) concretely in a fresh interpreter; `post` is a Python expression over `_`
    (the return value) that must hold.  Returns (reproduced: bool, detail)."""
    code = (
        f"import sys; sys.path.insert(0, {ROOT!r})\n"
        f"import {module} as m\n"
        f"try:\n"
        f"    _ = m.{func}({argstr})\n"
        f"    print('RESULT', repr(_), bool({post}))\n"
        f"except Exception as e:\n"
        f"    print('RESULT raised', type(e).__name__, str(e)[:100], False)\n"
    )
    try:
        p = subprocess.run([PY, "-c", code], capture_output=True, text=True, timeout=300,
                           env=dict(os.environ, PYTHONPATH=os.environ.get("PYTHONPATH") or ROOT))
    except subprocess.TimeoutExpired:
        return False, "replay timed out"
    for line in p.stdout.splitlines():
        if line.startswith("RESULT"):
            ok = line.rstrip().endswith("True")
            return (not ok), line
    return False, "replay could not run: " + (p.stderr.strip().splitlines() or ["?"])[-1][:200]


def check_condition(name, module, func, concrete_func, post, per_condition_timeout=120, twin=False, sample=None):
    """Run CrossHair on module.func; classify; replay a counterexample through module.concrete_func."""
    out, dt = run_crosshair(f"{module}.{func}", per_condition_timeout)
    verdict, args = classify(out)
    sample = sample or f"crosshair check {module}.{func}"
    if verdict == "confirmed":
        return outcome(name, "proved", stage="crosshair: Confirmed over all paths", sample=sample, twin=twin,
                       xhair_s=round(dt, 1))
    if verdict == "counterexample":
        rep, det = replay(module, concrete_func, args, post)
        if rep:
            return outcome(name, "violated", detail=f"{concrete_func}({args}): {det}", witness={"args": args},
                           sample=sample, twin=twin, xhair_s=round(dt, 1))
        return outcome(name, "inconclusive", detail=f"CrossHair counterexample ({args}) did not reproduce: {det}",
                       sample=sample, twin=twin)
    return outcome(name, "inconclusive", detail=f"CrossHair: {verdict}: {out.strip()[-200:]}", sample=sample, twin=twin,
                   xhair_s=round(dt, 1))
