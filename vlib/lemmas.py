"""Ground instances of textbook identities for uninterpreted functions.

Each instance is a true statement about the real functions the symbols stand
for; they are only *added as assumptions* (can make an unsat query, never a
sat one) and every instance used is counted in the evidence."""

from __future__ import annotations

from fractions import Fraction

from . import terms as tm


def _by_name(terms):
    out = {}
    for t in tm.ufs(terms):
        out.setdefault(t.args[0], []).append(t)
    return out


def instances(terms):
    """Lemma instances relevant to the uninterpreted applications in `terms`."""
    L = []
    names = []
    U = _by_name(terms)

    def polykey(t):
        p = tm.to_poly(t)
        return None if p is None else p

    # double angle: cos(2a) = 2 cos(a)^2 - 1 ; cosh(2a) = 2 cosh(a)^2 - 1
    for fn in ("cos", "cosh"):
        apps = U.get("uf_" + fn, [])
        # candidate half-arguments: arguments of any application of the same family
        fam = {"cos": ("uf_cos", "uf_sin", "uf_tan"), "cosh": ("uf_cosh", "uf_sinh", "uf_tanh")}[fn]
        halves = {}
        for n in fam:
            for t in U.get(n, []):
                halves[t.args[1].id] = t.args[1]
        for app in apps:
            p2 = polykey(app.args[1])
            if p2 is None:
                continue
            for h in halves.values():
                p1 = polykey(h)
                if p1 is None or p1.is_zero():
                    continue
                if (p1.scale(2) - p2).is_zero():
                    c1 = tm.uf("uf_" + fn, h)
                    L.append(tm.eq(app, tm.sub(tm.mul(tm.const(2), c1, c1), tm.const(1))))
                    names.append(f"{fn}(2a)=2{fn}(a)^2-1")
    # sin(2a) = 2 sin(a) cos(a) ; sinh(2a) = 2 sinh(a) cosh(a)
    for fs, fc in (("sin", "cos"), ("sinh", "cosh")):
        fam = ("uf_" + fs, "uf_" + fc, "uf_tan" if fs == "sin" else "uf_tanh")
        halves = {}
        for n in fam:
            for t in U.get(n, []):
                halves[t.args[1].id] = t.args[1]
        for app in U.get("uf_" + fs, []):
            p2 = polykey(app.args[1])
            if p2 is None:
                continue
            for h in halves.values():
                p1 = polykey(h)
                if p1 is None or p1.is_zero():
                    continue
                if (p1.scale(2) - p2).is_zero():
                    L.append(tm.eq(app, tm.mul(tm.const(2), tm.uf("uf_" + fs, h), tm.uf("uf_" + fc, h))))
                    names.append(f"{fs}(2a)=2{fs}(a){fc}(a)")
    # pow shift: pow(a, b) = a * pow(a, b - 1)
    pows = U.get("uf_pow", [])
    for p in pows:
        for q in pows:
            if p is q or p.args[1] is not q.args[1]:
                continue
            pb, qb = polykey(p.args[2]), polykey(q.args[2])
            if pb is None or qb is None:
                continue
            if (pb - qb - tm.Poly.const(1)).is_zero():
                L.append(tm.eq(p, tm.mul(p.args[1], q)))
                names.append("pow(a,b)=a*pow(a,b-1)")
    # pythagoras when both occur on the same argument
    for s, c, sign in (("uf_sin", "uf_cos", 1), ("uf_sinh", "uf_cosh", -1)):
        for a in U.get(s, []):
            for b in U.get(c, []):
                if a.args[1] is b.args[1]:
                    if sign > 0:
                        L.append(tm.eq(tm.add(tm.mul(a, a), tm.mul(b, b)), tm.const(1)))
                    else:
                        L.append(tm.eq(tm.sub(tm.mul(b, b), tm.mul(a, a)), tm.const(1)))
                    names.append("pythagoras")
    return L, names
