#!/bin/bash
# Idempotent offline bootstrap of /verif/.venv (overlay on /venv + solver tooling
# from the offline wheelhouse).  Called by MANIFEST.setup_cmd and by every check.
set -e
cd "$(dirname "$0")"
V=.venv
if [ ! -x $V/bin/python ] || ! $V/bin/python -c "import crosshair, z3" 2>/dev/null; then
  (
    flock 9
    if [ ! -x $V/bin/python ] || ! $V/bin/python -c "import crosshair, z3" 2>/dev/null; then
      rm -rf $V
      /venv/bin/python -m venv $V
      SP=$($V/bin/python -c "import sysconfig; print(sysconfig.get_paths()['purelib'])")
      echo "import site; site.addsitedir('/venv/lib/python3.12/site-packages')" > "$SP/zz_base_venv.pth"
      PIP_NO_INDEX=1 $V/bin/python -m pip install -q --no-index --find-links /opt/veriftools/wheels \
          crosshair-tool z3-solver >/dev/null
    fi
  ) 9>/tmp/.verif_venv.lock
fi
$V/bin/python -c "import ufl, crosshair, z3; assert ufl.__file__.startswith('/repo/'), ufl.__file__"
